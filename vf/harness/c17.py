"""C17 - persistent parameters: crash-atomic, exact round trip, retried after failure.

faultx + memfs: the real `PersistentMixin` / `PersistentParam` (frappy/persistent.py), the real module machinery
(`writeInitParams`, `announceUpdate` callbacks, wrappers), the real SecNode / Dispatcher (vf.nodes) and the real
datatype export / import run against an in-memory file system that is visible to `frappy.persistent` only
(`open`, `os` of that module namespace; `generalConfig.logdir` is a path object of that file system).

What is enumerated (exhaustively within the bound, no sampling):

  histories   per datatype kind (one module class per leaf kind + a struct + an array; parameters p: auto-persistent,
              writable, with write_p; r: auto-persistent, read-only (driver side); q: persistent 'on' (saved on demand);
              n: not persistent) x configuration {plain, p given in the configuration, on a disk that already holds a
              file} x every history of L steps (L = 2 quick / 3 thorough) over the alphabet
              {change p by client (2 values), change r by driver (2 values), change q by driver, saveParameters(),
              writeInitParams(), loadParameters() (power cycle), factory_reset by client}, once after the initial
              writeInitParams() (normal operation) and once without it (configured writes still pending, saving is
              deferred).  Every history ends with a fixed epilogue writeInitParams(); saveParameters().
     crash    at every file-system operation of every step (before it, and after the last one) x every on-disk image a
              process crash can leave: completed operations + any prefix of the unflushed bytes of an open handle
              (= every torn write).  Every image is handed to a freshly constructed node (real recovery).
     fault    OSError(EIO) from every mutating file-system operation (open, each write, close, rename, remove, mkdir)
              of every step; the history continues.
     hardware the same enumeration (plain configuration; configured values in `construct`) on two module shapes with a
              simulated controller that holds p and q, loses them at a power cycle (factory values after every start and
              before loadParameters()) and, inside a write method, reports settings back: those of the parameters restored
              LATER, or all of them.
  construct   the same crash / fault enumeration for start-up itself on 5 initial disk images (nothing, directory only,
              valid file, valid file + stale partial .tmp, outdated file).
  corrupt     a stored file is damaged: missing file / directory, truncation at every byte, bit flips (bit 0 and 5 of
              every byte quick; every bit thorough), top-level list / null / number / string / bool, every member
              replaced by every entry of the bad-value catalogue of its datatype (wrong kind, out of range), unknown
              keys, stale keys, missing keys; with and without a configured value.
  restart     run 1 saves values changed at run time, run 2 restarts on that disk with an edited configuration: per
              datatype kind x persistent flag {auto, on} one module class with a persistent parameter of every shape
              {writable, readonly} x {own write_<p> method, none}; run-1 configuration {nothing, everything} x EVERY subset
              of the four shapes configured in run 2 x configured value {differs from, equals} the stored one; observed
              right after construction, after writeInitParams() and after a following loadParameters().
  reload      the stored file is damaged / removed / replaced behind the back of a RUNNING node that has saved its values
              (every damage of the `corrupt` list), then every combination of [value change] loadParameters() / no
              loadParameters() [value change {p by client, r by driver, q by driver}] saveParameters() (thorough: all;
              quick: no leading change, and without a reload only the plain save): after a loadParameters() that has read the damaged file, every due save must leave the
              complete current snapshot on disk and a restart must restore it.
  roundtrip   every datatype of the type catalogue (depth <= 3; quick / thorough catalogue) x every valid value (for UTF-8
              strings, also nested, additionally lone high / low surrogates, a reversed pair, surrogateescape code points,
              astral characters, U+FFFF), set by a
              client (wire form) and by the driver (native form) -> saved -> loaded by a fresh node.

Oracle (from the statement, nothing more):
  S1 after a crash, and after a failed save, the file is absent-as-before or parses and equals the snapshot the
     fault-free run has on disk before the step or after it, or a snapshot written between two saves of the step that
     restores the same values as one of those two (so never the factory value a power-cycled controller reports while the
     stored values are still being written back) or - in a step that restores nothing (client / driver change, explicit
     save, no start value pending) - a complete snapshot in which every parameter holds its value from the beginning or
     from the end of the step (the new snapshot of a save in the middle of a write method that reads other settings
     back); never empty / partial.  A node constructed on the image starts and holds exactly the values a node
     constructed on that clean snapshot holds (leftovers such as a partial .tmp do not matter).
  S2 after an injected error, at the next moment a save is due the file equals the current values.
  S3 load(save(v)) == v: a node constructed on the saved file (configuration giving nothing) holds == values and
     exports the same wire value, and that value denotes what the client sent (catalogue reference model).
  S4 (within a run) after loadParameters() a configured parameter never holds the value that was stored BEFORE this
     start-up, unless this run assigned that value again; after a restart + loadParameters() with nothing changed in
     between, configured parameters hold the configured values and all others the stored ones.
  S4 a configured value wins over the stored one - for every parameter shape and every configured subset; "the
     configured value" is what the same configuration gives on an empty disk; parameters not configured hold the stored
     value (S3).
  S5 every damaged file still gives a started node; an entry is either taken (then the value held must denote the
     stored JSON value and lie in the value set of the datatype, by the reference model of the catalogue) or ignored
     (then the default applies); entries untouched by the damage must be taken when the file still is a JSON object.

Oracle calibration (weaker readings taken, see also the report to the lead):
  * "save is due" is only claimed where the mechanism leaves no latitude: an explicit saveParameters(), or a change of
    an auto-persistent parameter (client `changed` reply / driver assignment), each with an empty writeDict before the
    step.  What writeInitParams / loadParameters / factory_reset save, and when a deferred save is made up for, is not
    judged (the statement does not say).  The virtual clock advances 1 s per reading, so no update is dropped by
    `omit_unchanged_within`.
  * An OSError may surface to the caller of saveParameters() or be swallowed by the callback machinery - both fine.
    An OSError during the save of start-up may refuse start-up (the statement lists file damage, not I/O errors, as
    things that must not prevent start-up); the disk must still hold a complete snapshot and a restart must work.
  * Equality of restored values is Python `==` plus equality of the exported wire value; element types (list/tuple,
    mutability) are not judged beyond that.
  * Errors are injected into saving only (the quantifier says "of every save"): not into reading the file.
  * An out-of-range / wrong-kind stored member counts as unusable (the code's own comment: "ignore invalid persistent
    data (in case parameters have changed)"); the double tolerance of the reference model applies.
  * File damage while the node runs: a save is only judged after a loadParameters() that returned, i.e. after the code
    itself has read the damaged file (then the snapshot "last saved" is known not to be on disk and must not count as
    saved).  Without such a reload the module cannot know; what it does then is recorded as an outcome, not judged.  An
    exception out of loadParameters() on a damaged file is not judged either (the statement speaks of start-up).
  * A stored struct lacking optional members may be taken as it is or completed from the default value.
  * The key of a non-persistent parameter in the file must not prevent start-up; whether it is ignored is not judged.
Crash model: process crash.  Power-loss reordering of unsynced pages is not modelled.
"""
import json
import re
import time as _realtime

from vf import core, nodes
from vf.catalog import types as T, values as V, refmodel as R
from vf.engines import faultx, memfs
from vf.engines.memfs import Crash, MemFS

PROPERTY = 'C17'
LOGDIR = '/vlog'
PDIR = '/vlog/persistent'
FILE = '/vlog/persistent/verif_node.m.json'
TMP = FILE + '.tmp'
PERS = ('p', 'r', 'q')
QSPEC = ('int', 0, 9)

KINDS = [
    ('double', ('double', 0.0, 10.0, None, None)),
    ('int', ('int', -3, 3)),
    ('scaled', ('scaled', 0.1, 0.0, 10.0)),
    ('bool', ('bool',)),
    ('enum', ('enum', (('a', 1), ('b', 2)))),
    ('string', ('string', 0, None, True)),
    ('blob', ('blob', 0, 4)),
    ('struct', ('struct', (('a', ('int', 0, 9)), ('b', ('string', 0, 3, False))), ('b',))),
    ('array', ('array', ('double', 0.0, 10.0, None, None), 0, 3)),
]
KINDS_THOROUGH = KINDS + [
    ('tuple', ('tuple', (('int', 0, 9), ('string', 0, None, True)))),
]


# ------------------------------------------------------------------------------------------------------------
# environment: virtual clock for frappy.modulebase, module classes, nodes

class _Clock:
    def __init__(self):
        self.t = 1.7e9

    def time(self):
        self.t += 1.0
        return self.t

    monotonic = time

    def sleep(self, _s):
        pass

    def __getattr__(self, name):
        return getattr(_realtime, name)


_env = {}


def env():
    if not _env:
        import frappy.modulebase
        import frappy.persistent as P
        from frappy.lib import generalConfig
        import logging
        logging.disable(logging.DEBUG)      # debug records of the captured loggers are never looked at
        _env['clock'] = frappy.modulebase.time = _Clock()
        _env['P'] = P
        _env['gc'] = generalConfig
        _env['kinds'] = {}
        _env['rtcls'] = {}
        _env['rec'] = {}
    return _env


KINDS_HW = [
    # module shape "simulated hardware": p and q live in a controller that loses them at a power cycle (factory values
    # after every start and before loadParameters()); a write method makes the controller report settings back:
    # those of the parameters restored LATER (writeDict order p, q), or all of them
    ('hw-later', ('double', 0.0, 10.0, None, None), 'later'),
    ('hw-all', ('double', 0.0, 10.0, None, None), 'all'),
]


def _hw_attrs(P, spec, readback):
    from frappy.datatypes import IntRange
    factory = {'p': T.build(spec).default, 'q': 2}

    def __init__(self, *args):
        self.hw = dict(factory)     # the hardware was power cycled
        P.PersistentMixin.__init__(self, *args)

    def power_cycle(self):
        self.hw = dict(factory)

    def hw_set(self, name, value):
        if name in self.hw:
            self.hw[name] = value

    def write_p(self, value):
        self.hw['p'] = value
        self.read_q()               # the controller reports its settings back
        return value

    def write_q(self, value):
        self.hw['q'] = value
        if readback == 'all':
            self.read_p()
        return value

    return {
        '__init__': __init__, 'power_cycle': power_cycle, 'hw_set': hw_set,
        'q': P.PersistentParam('q', IntRange(0, 9), default=2, readonly=False, persistent='auto'),
        'read_p': lambda self: self.hw['p'], 'read_q': lambda self: self.hw['q'],
        'write_p': write_p, 'write_q': write_q,
    }


class Kind:
    def __init__(self, name, spec, hw=None):
        e = env()
        P = e['P']
        from frappy.modules import Module
        from frappy.params import Parameter
        from frappy.datatypes import IntRange
        self.name, self.spec = name, spec
        dt = T.build(spec)
        self.specs = {'p': spec, 'r': spec, 'q': QSPEC}
        attrs = {
            'p': P.PersistentParam('p', T.build(spec), persistent='auto', readonly=False),
            'r': P.PersistentParam('r', T.build(spec), persistent='auto'),
            'q': P.PersistentParam('q', IntRange(0, 9), default=2, readonly=False),
            'n': Parameter('n', IntRange(0, 9), default=0, readonly=False),
            'write_p': lambda self, value: value,
        }
        self.shape = 'no-hardware' if not hw else 'hardware-reports-back-' + hw
        if hw:
            attrs.update(_hw_attrs(P, spec, hw))
        self.cls = type('M_' + name, (P.PersistentMixin, Module), attrs)
        # two client (wire) and two driver (native) values, different from the default and from each other
        def complete(vals):     # configured struct values must name every member (that is C10's business, not ours)
            return [v for v in vals if spec[0] != 'struct' or len(v) == len(spec[1])]
        self.wire = pick(dt, complete(V.valid(spec, 'wire')), lambda w: dt.validate(dt.import_value(w)))
        self.drv = pick(dt, list(reversed(complete(V.valid(spec, 'drv')))), dt.validate)
        if len(self.wire) < 2 or len(self.drv) < 2:
            raise core.Inconclusive(f'value catalogue of {T.sstr(spec)} has fewer than 2 usable non-default values')

    def cfg(self, var):
        c = {'cls': self.cls}
        if var == 'given':
            c['p'] = {'value': self.drv[1]}
        return c


def pick(dt, cands, conv):
    """two candidates with different values, the first one (both if the type has enough values) not the default"""
    dflt = dt.validate(dt.default)
    vals = []
    for c in cands:
        try:
            v = conv(c)
        except Exception:
            continue
        if not any(v == s for _, s in vals):
            vals.append((c, v))
    nondef = [c for c, v in vals if not v == dflt]
    res = nondef[:2]
    if len(res) == 1:
        res += [c for c, v in vals if v == dflt][:1]
    return res


def kinds(tier=None):
    e = env()
    table = KINDS_THOROUGH
    for name, spec in table:
        if name not in e['kinds']:
            e['kinds'][name] = Kind(name, spec)
    for name, spec, readback in KINDS_HW:
        if name not in e['kinds']:
            e['kinds'][name] = Kind(name, spec, hw=readback)
    return e['kinds']


def kind_names(tier):
    return [n for n, _ in (KINDS if tier == 'quick' else KINDS_THOROUGH)]


class StartFailed(Exception):
    def __init__(self, what, text):
        super().__init__(text)
        self.what, self.text = what, text


def build_node(module_cfg):
    """real node on whatever file system is installed; -> node or raises StartFailed (Crash passes through)"""
    node = nodes.Node.__new__(nodes.Node)
    try:
        node.__init__({'m': module_cfg})
    except nodes.StartupRefused as e:
        text = ' | '.join(e.errors)
        tb = [r[2] for r in node.loghandler.records if 'Traceback' in r[2]]
        exc = ''
        if tb:
            last = tb[0].strip().splitlines()[-1]
            exc = last.split(':')[0].strip().rpartition('.')[2]
            # call site: the innermost function of frappy/persistent.py on the stack
            fn = re.findall(r'persistent\.py", line \d+, in (\w+)', tb[0])
            if fn:
                exc += '-in-' + fn[-1].strip('_')
            text += ' | ' + last
        _drop(node)
        raise StartFailed('refused' + (':' + exc if exc else ''), text) from None
    except Crash:
        _drop(node)
        raise
    except Exception as e:
        _drop(node)
        raise StartFailed('exc:' + type(e).__name__, repr(e)) from None
    return node


def _drop(node):
    log = getattr(node, 'log', None)
    if log is not None:
        nodes.drop_logger(log)


def install(fs):
    e = env()
    return memfs.installed(fs, e['P'], {(e['gc'], 'logdir'): fs.Path(LOGDIR)})


def content(image):
    return dict(image[0]).get(FILE)


def clean_image(data):
    """a disk holding the persistent directory and (if data is not None) just the file"""
    files = () if data is None else ((FILE, data),)
    return files, ('/', LOGDIR, PDIR)


EMPTY = ((), ('/',))


def read_values(node, names=PERS):
    m = node.secnode.modules['m']
    vals = {x: getattr(m, x) for x in names}
    conn = node.connect()
    wire = {}
    for x in names:
        rep = node.request(conn, f'read m:_{x}')
        wire[x] = json.dumps(rep[2][0], sort_keys=True) if rep[0] == 'reply' else f'{rep[0]}:{rep[2][0]}'
    node.disconnect(conn)
    return vals, wire


def recover(module_cfg, key, image, part=None, init=True):
    """construct a fresh node on the image (the real start-up path), let it write its initial parameters as the poll
    thread would, and report ('ok', values, wire values) or ('fail', what, text).  Deterministic in (key, image):
    cached per process."""
    cache = env()['rec']
    ck = (key, image, init)
    res = cache.get(ck)
    if res is not None:
        if part is not None:
            part.extra['recoveries_cached'] += 1
        return res
    fs = MemFS(image)
    with install(fs):
        try:
            node = build_node(dict(module_cfg))
        except StartFailed as e:
            res = ('fail', e.what, e.text)
        else:
            try:
                if init:
                    node.secnode.modules['m'].writeInitParams()
                vals, wire = read_values(node)
                res = ('ok', vals, wire)
            except Exception as e:
                res = ('fail', 'exc-after-start:' + type(e).__name__, repr(e))
            finally:
                node.close()
    if part is not None:
        part.extra['recoveries'] += 1
        part.transitions += len(fs.log)
    cache[ck] = res
    return res


def same_vals(a, b, names=PERS):
    for x in names:
        try:
            if not a[x] == b[x]:
                return False
        except Exception:
            return False
    return True


def same_rec(a, b):
    return a[0] == 'ok' and b[0] == 'ok' and same_vals(a[1], b[1]) and a[2] == b[2]


def norm(text):
    text = re.sub(r"'[^']*'|\"[^\"]*\"", 'Q', str(text))
    text = re.sub(r'-?\d+(\.\d+)?(e[-+]?\d+)?', 'N', text)
    text = re.sub(r'[^A-Za-z0-9<>\[\].:=]+', '-', text).strip('-')
    return text[:80]


def opname(kind):
    return {'open-w': 'open', 'close-w': 'close', 'open-r': 'open-for-read', 'close-r': 'close-after-read'}.get(kind, kind)


def parse(data):
    """-> ('absent'|'unparsable'|'non-object'|'object', value)"""
    if data is None:
        return 'absent', None
    try:
        v = json.loads(data.decode('utf-8'))
    except ValueError:
        return 'unparsable', None
    if not isinstance(v, dict):
        return 'non-object', v
    return 'object', v


def classify(data, allowed):
    """how a target content that is not an allowed snapshot looks"""
    if data is None:
        return 'vanished'
    if data == b'':
        return 'empty'
    if any(a is not None and a.startswith(data) for a in allowed):
        return 'truncated'
    if parse(data)[0] != 'object':
        return 'unparsable'
    return 'foreign-content'


# ------------------------------------------------------------------------------------------------------------
# scenario = construct + steps (+ epilogue) on a given file system

def alphabet():
    return [['client', 'p', 0], ['client', 'p', 1], ['driver', 'r', 0], ['driver', 'r', 1], ['driver', 'q', 0],
            ['save'], ['init'], ['load'], ['reset']]


EPILOGUE = [['init'], ['save']]


class Scenario:
    def __init__(self, kind, cfgvar, steps, epilogue=True):
        self.kind, self.cfgvar, self.steps = kind, cfgvar, [list(s) for s in steps]
        self.all_steps = self.steps + (EPILOGUE if epilogue else [])
        self.obs = []

    def snapshot(self, o, fs, m):
        o['vals'] = {x: getattr(m, x) for x in PERS}
        o['image'] = fs.image()
        o['images'] = [img for _c, img in fs.images()] if fs.pending() else [o['image']]

    def __call__(self, fs):
        K = kinds()[self.kind]
        self.obs = []
        node = None
        with install(fs):
            fs.label = 0
            o = {'step': ['construct'], 'label': 0, 'wd': False}
            self.obs.append(o)
            try:
                try:
                    node = build_node(K.cfg(self.cfgvar))
                except StartFailed as e:
                    o['exc'], o['msg'] = e.what, e.text
                    o['image'] = fs.image()
                    o['images'] = [img for _c, img in fs.images()]
                    return self.obs
                m = node.secnode.modules['m']
                conn = node.connect()
                self.snapshot(o, fs, m)
                for k, step in enumerate(self.all_steps, 1):
                    fs.label = k
                    o = {'step': step, 'label': k, 'wd': bool(m.writeDict), 'epilogue': k > len(self.steps)}
                    self.obs.append(o)
                    try:
                        self.do(step, K, node, m, conn, o)
                    except Crash:
                        raise
                    except Exception as e:
                        o['exc'], o['msg'] = type(e).__name__, str(e)
                    self.snapshot(o, fs, m)
            finally:
                if node is not None:
                    node.close()
        return self.obs

    @staticmethod
    def do(step, K, node, m, conn, o):
        what = step[0]
        if what == 'client':
            rep = node.request(conn, f'change m:_{step[1]} {json.dumps(K.wire[step[2]])}')
            o['reply'] = rep[0]
            if rep[0] != 'changed':
                o['msg'] = str(rep[2])
        elif what == 'driver':
            value = 7 if step[1] == 'q' else K.drv[step[2]]
            if hasattr(m, 'hw_set'):
                m.hw_set(step[1], value)     # the driver reads this value from its hardware
            setattr(m, step[1], value)
        elif what == 'save':
            m.saveParameters()
        elif what == 'init':
            m.writeInitParams()
        elif what == 'load':
            if hasattr(m, 'power_cycle'):
                m.power_cycle()              # loadParameters() is what a driver calls when it detects a power cycle
            m.loadParameters()
        elif what == 'reset':
            rep = node.request(conn, 'do m:_factory_reset')
            o['reply'] = rep[0]
            if rep[0] != 'done':
                o['msg'] = str(rep[2])
        else:
            raise ValueError(step)


def due(o):
    """a save is due in this step beyond doubt (see Oracle calibration)"""
    s = o['step']
    if o['wd']:
        return False
    if s[0] == 'save':
        return True
    if s[0] == 'client' and s[1] in ('p',) and o.get('reply') == 'changed':
        return True
    if s[0] == 'driver' and s[1] in ('r',) and 'exc' not in o:
        return True
    return False


class HealthyDiskFails(Exception):
    """construct; init; change p; change r; change q; save does not even work on a healthy, empty disk"""
    def __init__(self, kind, what, text):
        super().__init__(text)
        self.kind, self.what, self.text = kind, what, text


def base_image(kind):
    """a clean disk written by the real code: p = wire[0], r = drv[1], q = 7"""
    e = env()
    key = ('base', kind)
    if key not in e:
        sc = Scenario(kind, 'plain', [['init'], ['client', 'p', 0], ['driver', 'r', 1], ['driver', 'q', 0], ['save']],
                      epilogue=False)
        obs = sc(MemFS(EMPTY))
        data = content(obs[-1]['image'])
        if parse(data)[0] != 'object' or any('exc' in o for o in obs):
            bad = next((o for o in obs if 'exc' in o), obs[-1])
            raise HealthyDiskFails(kind, bad.get('exc', 'file-' + parse(data)[0]),
                                   f'step {" ".join(map(str, bad["step"]))}: {bad.get("msg")}; file {data!r}')
        e[key] = (clean_image(data), obs[-1]['vals'])
    return e[key]


def init_image(kind, name):
    if name == 'nothing':
        return EMPTY
    if name == 'dir':
        return clean_image(None)
    img, _ = base_image(kind)
    data = content(img)
    if name == 'file':
        return img
    if name == 'file+stale-tmp':
        return ((FILE, data), (TMP, data[:len(data) // 2])), img[1]
    if name == 'outdated':
        d = json.loads(data)
        d.pop('r')
        d['gone'] = [1, 2]
        return clean_image((json.dumps(d, indent=2) + '\n').encode())
    raise ValueError(name)


INIT_IMAGES = ('nothing', 'dir', 'file', 'file+stale-tmp', 'outdated')


# ------------------------------------------------------------------------------------------------------------
# the checks on one history

class HistoryCheck:
    def __init__(self, part, kind, cfgvar, init, steps):
        self.part, self.kind, self.cfgvar, self.init, self.steps = part, kind, cfgvar, init, [list(s) for s in steps]
        self.K = kinds()[kind]
        self.img0 = init_image(kind, init)
        self.plain = self.K.cfg('plain')
        self.cfg = self.K.cfg(cfgvar)
        self.tr = None

    def case(self, **kw):
        return dict({'sub': 'history', 'kind': self.kind, 'cfg': self.cfgvar, 'init': self.init, 'steps': self.steps}, **kw)

    def make_fs(self):
        return MemFS(self.img0)

    def scenario(self):
        return Scenario(self.kind, self.cfgvar, self.steps)

    def describe(self):
        return (f'kind {self.kind} ({T.sstr(self.K.spec)}), configuration {self.cfgvar}, initial disk {self.init}, '
                f'history construct; ' + '; '.join(' '.join(map(str, s)) for s in self.steps) + ' (; init; save)')

    def rec_same(self, image):
        return recover(self.cfg, (self.kind, self.cfgvar), image, self.part)

    def rec_plain(self, image):
        return recover(self.plain, (self.kind, 'plain'), image, self.part)

    # ---- dry run
    def dry(self):
        sc = self.scenario()
        self.tr = faultx.record(sc, self.make_fs)
        self.obs = sc.obs
        self.part.transitions += len(self.tr.ops)
        self.part.extra['histories'] += 1
        if self.tr.error is not None:
            raise core.Inconclusive(f'dry run of {self.describe()} failed: {self.tr.error!r}')
        if 'exc' in self.obs[0] and self.init in ('nothing', 'dir', 'file', 'file+stale-tmp', 'outdated'):
            # start-up on a healthy disk must work, otherwise nothing can be said (S5 judges damaged files)
            self.part.violation(f'C17:construct:{self.init}:{norm(self.obs[0]["exc"])}', self.case(check='clean'),
                                f'{self.describe()}: start-up on a healthy disk failed: {self.obs[0]["msg"]}')
            return False
        # quiescent contents per step (label)
        self.before = {}     # label -> target content when the step starts
        self.allowed = {}    # label -> set of allowed target contents
        prev = content(self.img0)
        for o in self.obs:
            lab = o['label']
            self.before[lab] = prev
            allowed = {prev, content(o['image'])}
            prev = content(o['image'])
            self.allowed[lab] = allowed
        # a snapshot written between two saves of one step counts as "previous or new" only by value: a restart on it
        # must give what a restart on the snapshot before or after the step gives (e.g. never the factory value a
        # power-cycled controller reports while the stored values are still being written back)
        self.foreign = {}    # label -> {intermediate content that restores neither the old nor the new values}
        after = {o['label']: content(o['image']) for o in self.obs}
        for op_index, _kind, lab, imgs, nopen in self.tr.points:
            if nopen == 0 and lab in self.allowed:
                c = content(imgs[0][2])
                if c in self.allowed[lab] or c in self.foreign.get(lab, ()) or parse(c)[0] != 'object':
                    continue
                rc = self.rec_plain(clean_image(c))
                ends = [self.rec_plain(clean_image(e)) for e in (self.before[lab], after[lab])]
                if any(same_rec(rc, e) for e in ends):
                    self.allowed[lab].add(c)
                elif self.cache_snapshot(lab, rc):
                    self.allowed[lab].add(c)
                    self.part.outcomes['intermediate:snapshot-of-the-cache-inside-an-ordinary-step'] += 1
                else:
                    self.foreign.setdefault(lab, {})[c] = (rc, ends)
        return True

    def cache_snapshot(self, lab, rc):
        """an intermediate file of an ORDINARY step (a client / driver change or an explicit save with no start value pending):
        every save writes the new snapshot of that moment - complete, and every persistent parameter in it holds the value
        the module held when the step began or the one it holds when the step is over (a write method that reads other
        settings back changes several parameters one after the other).  Steps that restore stored values (writeInitParams,
        loadParameters, factory reset, anything with start values pending) keep the strict rule."""
        o = self.obs[lab] if lab < len(self.obs) and self.obs[lab]['label'] == lab else None
        prev = self.obs[lab - 1] if o is not None and lab >= 1 else None
        if o is None or prev is None or o['wd'] or o['step'][0] not in ('client', 'driver', 'save') or rc[0] != 'ok':
            return False
        if 'vals' not in o or 'vals' not in prev:
            return False
        return all(same_vals(rc[1], prev['vals'], (x,)) or same_vals(rc[1], o['vals'], (x,)) for x in PERS)

    # ---- S3 along the fault-free history
    def check_clean(self):
        prev = self.obs[0]
        for o in self.obs[1:]:
            if due(o):
                self.check_due(o, None)
            if o['step'][0] == 'load' and 'image' in prev:
                self.check_load(o, prev['image'])
            prev = o

    def check_load(self, o, image):
        """S3 for loadParameters() (power cycle): every persistent parameter now holds what the file holds"""
        part = self.part
        part.traces += 1
        data = content(image)
        if parse(data)[0] != 'object' or 'exc' in o:
            part.outcomes[f'load:{"raises" if "exc" in o else "no-file"}'] += 1
            if 'exc' in o:
                part.violation(f'C17:loadParameters:{self.kind}:raises-{norm(o["exc"])}', self.case(check='clean'),
                               f'{self.describe()}: loadParameters() in step {o["label"]} raised {o["exc"]}: {o.get("msg")}')
            return
        rec = self.rec_plain(clean_image(data))
        if rec[0] != 'ok':
            part.outcomes['load:file-not-loadable'] += 1
            return      # judged by check_due / the crash checks
        ok = same_vals(rec[1], o['vals'])
        part.outcomes[f'load:{"restored" if ok else "NOT-restored"}'] += 1
        if self.cfgvar == 'given':
            self.check_load_precedence(o)
        if not ok:
            diff = [x for x in PERS if not same_vals(rec[1], o['vals'], (x,))]
            part.violation(f'C17:loadParameters:{self.kind}:parameter-not-restored', self.case(check='clean'),
                           f'{self.describe()}: after loadParameters() in step {o["label"]} with file {data!r} the module holds '
                           f'{o["vals"]!r}; a node started on that file holds {rec[1]!r} (differs in {diff})')

    def check_load_precedence(self, o):
        """S4 within a run: a reload must not bring back the value stored BEFORE this start-up for a configured parameter
        (unless this run itself assigned that value again)"""
        part = self.part
        old = self.rec_plain(self.img0)
        cfgd = self.rec_same(EMPTY)
        if old[0] != 'ok' or cfgd[0] != 'ok' or parse(content(self.img0))[0] != 'object':
            return
        part.traces += 1
        x = 'p'
        stale = old[1][x]
        legit = [cfgd[1][x]] + [q['vals'][x] for q in self.obs[1:o['label']]
                               if 'vals' in q and (q['step'][0] == 'reset' or q['step'][:2] in (['client', x], ['driver', x]))]
        bad = o['vals'][x] == stale and not any(stale == v for v in legit)
        part.outcomes[f'load:configured-{"still-wins" if not bad else "LOST"}'] += 1
        if bad:
            part.violation('C17:precedence:loadParameters:value-stored-before-start-up-overrides-configured',
                           self.case(check='clean'),
                           f'{self.describe()}: {x} is configured as {cfgd[1][x]!r}, the file held {stale!r} before this start-up; '
                           f'after loadParameters() in step {o["label"]} the module holds {o["vals"][x]!r} although nothing in '
                           f'this run assigned it (values assigned: {legit!r})')

    def check_due(self, o, fault):
        """the file must now equal the current values.  fault: None or (op, content of the file before the fault)"""
        part = self.part
        part.traces += 1
        data = content(o['image'])
        pk = parse(data)[0]
        stepname = o['step'][0]
        problem = None
        if len(o['images']) > 1:
            problem = ('handle-left-open', 'a file handle with unflushed data is still open after the save')
        elif pk != 'object':
            problem = (f'file-{pk}', f'the file is {pk}: {data!r}')
        else:
            rec = self.rec_plain(o['image'])
            if rec[0] != 'ok':
                problem = ('reload-fails', f'a node constructed on the file does not start: {rec[1]} {rec[2]}')
            elif not same_vals(rec[1], o['vals']):
                problem = ('values-differ', f'file {data!r} gives {rec[1]!r}, the module holds {o["vals"]!r}')
        part.outcomes[f'due:{stepname}:{"fault" if fault else "clean"}:{"ok" if not problem else problem[0]}'] += 1
        if not problem:
            return True
        if fault is None:
            part.violation(f'C17:roundtrip:{self.kind}:after-{stepname}:{problem[0]}', self.case(check='clean'),
                           f'{self.describe()}: after step {o["label"]} ({" ".join(map(str, o["step"]))}) a save was due, '
                           f'but {problem[1]}')
        else:
            op, before = fault
            how = 'not-retried' if data == before else 'next-save-wrong-content'
            part.violation(f'C17:save:OSError-at-{opname(op.kind)}:{how}', self.case(check='fault', op=op.index),
                           f'{self.describe()}: OSError injected at file-system operation {op.brief()} (step {op.label}); '
                           f'at the next due save (step {o["label"]}: {" ".join(map(str, o["step"]))}) {problem[1]}; '
                           f'file before the failed save: {before!r}')
        return False

    # ---- (a)/(b): crash states
    def check_crashes(self, labels, only=None):
        part = self.part
        seen = {}
        clean_imgs = {o['image'] for o in self.obs}
        for cc in faultx.crash_cases(self.tr, labels):
            if only is not None and cc.key() != only:
                continue
            part.evaluations += 1
            part.extra['crash_cases'] += 1
            verdict = seen.get((cc.label, cc.image))
            if verdict is None:
                verdict = self.judge_crash(cc)
                seen[(cc.label, cc.image)] = verdict
                part.states += 1
                if cc.image not in clean_imgs:
                    part.nontrivial += 1
            part.outcomes['crash:' + verdict[0]] += 1
            if verdict[1]:
                sig, detail = verdict[1]
                sig = sig.replace('@', opname(cc.before))
                part.violation(sig, self.case(check='crash', crash=cc.tojson()),
                               f'{self.describe()}: process crash before operation {cc.op_index} ({cc.before}, step '
                               f'{cc.label}) with {cc.choice or "no"} unflushed bytes on disk: {detail}')

    def judge_crash(self, cc):
        part = self.part
        part.traces += 1
        allowed = self.allowed[cc.label]
        data = content(cc.image)
        if data in self.foreign.get(cc.label, ()):
            rc, ends = self.foreign[cc.label][data]
            return ('target-intermediate-snapshot', (
                f'C17:restore:{self.K.shape}:intermediate-snapshot-restores-neither-old-nor-new-values',
                f'the file holds the complete but intermediate snapshot {data!r}: a restart gives {rc[1:2]!r}; the snapshot '
                f'before this step gives {ends[0][1:2]!r}, the one after it {ends[1][1:2]!r}'))
        if data not in allowed:
            cls = classify(data, allowed)
            return ('target-' + cls, (f'C17:crash:before-@:target-{cls}',
                                      f'the file holds {data!r}; complete snapshots of this step: {sorted(allowed, key=repr)!r}'))
        rec = self.rec_same(cc.image)
        exp = self.rec_same(clean_image(data))
        if rec[0] != 'ok':
            return ('recovery-fails', (f'C17:crash:before-@:recovery-{norm(rec[1])}',
                                       f'a node constructed on the crash image {cc.image[0]!r} does not start: {rec[1]} {rec[2]}'))
        if not same_rec(rec, exp):
            return ('recovery-differs', (f'C17:crash:before-@:recovered-values-not-those-of-the-snapshot',
                                         f'crash image {cc.image[0]!r} gives {rec[1:]!r}, the clean snapshot gives {exp[1:]!r}'))
        which = 'absent' if data is None else ('old' if data == self.before[cc.label] else 'new')
        if cc.image in (clean_image(data), self.img0):
            return ('clean-' + which, None)
        return ('leftover-' + which, None)

    # ---- (c): injected errors
    def fault_points(self, labels):
        return faultx.fault_points(self.tr, labels=labels)

    def check_fault(self, i):
        part = self.part
        op = self.tr.ops[i]
        sc = self.scenario()
        fs, _res, err, fired = faultx.inject(sc, self.make_fs, i, expect_ops=self.tr.ops)
        part.evaluations += 1
        part.nontrivial += 1
        part.extra['fault_cases'] += 1
        part.transitions += len(fs.log)
        if not fired or err is not None:
            raise core.Inconclusive(f'{self.describe()}: injection at {op.brief()} did not run as recorded: {err!r}')
        obs = sc.obs
        k = op.label
        o = obs[k]
        # S1: what the failed save left behind
        part.traces += 1
        before = self.before[k]
        allowed = self.allowed[k]
        bad = [content(img) for img in o['images'] if content(img) not in allowed]
        part.outcomes[f'fault:{opname(op.kind)}:{"raised" if "exc" in o else "silent"}:'
                      f'{"ok" if not bad else "target-damaged"}'] += 1
        if bad and bad[0] in self.foreign.get(k, ()):
            rc, ends = self.foreign[k][bad[0]]
            part.violation(f'C17:restore:{self.K.shape}:intermediate-snapshot-restores-neither-old-nor-new-values',
                           self.case(check='fault', op=i),
                           f'{self.describe()}: OSError injected at {op.brief()} (step {k}); afterwards the file holds the '
                           f'intermediate snapshot {bad[0]!r}: a restart gives {rc[1:2]!r}; the snapshot before this step gives '
                           f'{ends[0][1:2]!r}, the one after it {ends[1][1:2]!r}')
            return
        if bad:
            cls = classify(bad[0], allowed)
            part.violation(f'C17:fault:OSError-at-{opname(op.kind)}:target-{cls}', self.case(check='fault', op=i),
                           f'{self.describe()}: OSError injected at {op.brief()} (step {k}); afterwards the file holds '
                           f'{bad[0]!r}; complete snapshots of this step: {sorted(allowed, key=repr)!r}')
            return
        if k == 0:
            # start-up: either it went on or it was refused; a restart on what is on disk must work
            rec = self.rec_same(o['image'])
            part.traces += 1
            if rec[0] != 'ok':
                part.violation(f'C17:fault:OSError-at-{opname(op.kind)}:restart-{norm(rec[1])}', self.case(check='fault', op=i),
                               f'{self.describe()}: OSError injected at {op.brief()} during start-up; a restart on the '
                               f'resulting disk {o["image"][0]!r} fails: {rec[1]} {rec[2]}')
            if 'exc' in o:
                return
        # S2: the next due save writes the current values
        for o2 in obs[k + 1:]:
            if due(o2):
                self.check_due(o2, (op, content(o['image'])))
                break

    def verify_determinism(self, which):
        """re-execute with a real Crash and compare with the recorded image"""
        cases = list(faultx.crash_cases(self.tr))
        if not cases:
            return
        for idx in which:
            cc = cases[idx % len(cases)]
            sc = self.scenario()
            try:
                img = faultx.crash_image(sc, self.make_fs, cc.op_index, cc.choice, cc.torn, expect_ops=self.tr.ops)
            except faultx.NonDeterministic as e:
                raise core.Inconclusive(f'{self.describe()}: {e}') from None
            self.part.extra['crash_reexecutions'] += 1
            if img != cc.image:
                raise core.Inconclusive(f'{self.describe()}: recorded crash image differs from the re-executed one at '
                                        f'{cc.tojson()}')


# ------------------------------------------------------------------------------------------------------------
# shards

def bounds(tier):
    return dict(L=2 if tier == 'quick' else 3, rt_depth=3,
                flipbits=(0, 5) if tier == 'quick' else tuple(range(8)))


def histories(first, group, L):
    """all histories of L steps with the given first step; group 'normal' prepends writeInitParams()"""
    import itertools
    A = alphabet()
    for rest in itertools.product(A, repeat=L - 1):
        steps = [first] + [list(s) for s in rest]
        yield ([['init']] + steps) if group == 'normal' else steps


def shard_history(shard):
    _sub, kind, cfgvar, group, first = shard
    part = core.Part()
    b = bounds(core.TIER)
    A = alphabet()
    init = 'nothing' if cfgvar == 'plain' else 'file'
    off = 1 if group == 'normal' else 0
    n = 0
    for steps in histories(first, group, b['L']):
        hc = HistoryCheck(part, kind, cfgvar, init, steps)
        if not hc.dry():
            continue
        hc.check_clean()
        nlab = len(steps)
        # crash states of step k are the same for all histories sharing the first k steps: enumerate them for the
        # history whose later steps are all the first letter of the alphabet
        labels = set()
        for k in range(1 + off, nlab + 1):
            if all(s == A[0] for s in steps[k:]):
                labels.add(k)
        hc.check_crashes(labels)
        for i in hc.fault_points(set(range(1 + off, nlab + 1))):
            hc.check_fault(i)
        if n % 16 == 0:
            hc.verify_determinism([n // 16 * 7 + 3] if core.TIER == 'quick' else range(n, n + 200, 23))
        if n % 29 == 0:
            part.sample({'history': hc.describe(), 'fs_operations': len(hc.tr.ops),
                         'crash_cases': faultx.count_crash_cases(hc.tr),
                         'ops': [op.brief() for op in hc.tr.ops[:6]] + ['...']})
        n += 1
    return part


def shard_construct(shard):
    _sub, kind, cfgvar = shard
    part = core.Part()
    for init in INIT_IMAGES:
        for steps in ([], [['init']]):
            hc = HistoryCheck(part, kind, cfgvar, init, steps)
            if not hc.dry():
                continue
            hc.check_clean()
            labels = {0} if not steps else {1}
            hc.check_crashes(labels)
            for i in hc.fault_points(labels):
                hc.check_fault(i)
            hc.verify_determinism(range(0, 400, 37) if core.TIER == 'quick' else range(0, 2000, 11))
            if init == 'file+stale-tmp' and not steps:
                part.sample({'history': hc.describe(), 'fs_operations': [op.brief() for op in hc.tr.ops],
                             'crash_cases': faultx.count_crash_cases(hc.tr)})
            # S4 / start-up values: the started node holds the configured value, else the stored one, else the default
            check_startup_values(part, hc)
    return part


def check_startup_values(part, hc):
    K = hc.K
    o = hc.obs[0]
    if 'exc' in o:
        return
    part.traces += 1
    defaults = recover(hc.cfg, (hc.kind, hc.cfgvar), EMPTY, part)
    plain_defaults = recover(hc.plain, (hc.kind, 'plain'), EMPTY, part)
    if defaults[0] != 'ok' or plain_defaults[0] != 'ok':
        raise core.Inconclusive(f'node of kind {hc.kind} does not start on an empty disk: {defaults} {plain_defaults}')
    stored = parse(content(hc.img0))
    vals = o['vals']
    for x in PERS:
        given = hc.cfgvar == 'given' and x == 'p'
        if given:
            ok = vals[x] == defaults[1][x]
            nontrivial = stored[0] == 'object' and x in stored[1]
            part.outcomes[f'startup:{x}:configured-{"wins" if ok else "LOST"}'] += 1
            if nontrivial:
                part.nontrivial += 1
            if not ok:
                part.violation(f'C17:precedence:{hc.kind}:stored-value-overrides-configured',
                               hc.case(check='startup'),
                               f'{hc.describe()}: {x} is configured as {defaults[1][x]!r}, the file holds '
                               f'{stored[1].get(x) if stored[1] else None!r}, the started module holds {vals[x]!r}')
        elif stored[0] == 'object' and x in stored[1]:
            res = judge_entry(K.specs[x], stored[1][x], vals[x], plain_defaults[1][x], known_usable=True)
            part.outcomes[f'startup:{x}:stored-{"taken" if not res else "LOST"}'] += 1
            if res:
                part.violation(f'C17:startup:{hc.kind}:{res[0]}', hc.case(check='startup'),
                               f'{hc.describe()}: {x}: {res[1]}')
        else:
            ok = vals[x] == plain_defaults[1][x]
            part.outcomes[f'startup:{x}:default-{"applies" if ok else "LOST"}'] += 1
            if not ok:
                part.violation(f'C17:startup:{hc.kind}:default-not-applied', hc.case(check='startup'),
                               f'{hc.describe()}: {x} has no stored entry, holds {vals[x]!r}, default {plain_defaults[1][x]!r}')


# ---- S5: damaged files

class _Frozen(dict):
    def __setitem__(self, k, v):
        raise TypeError('frozen')


def freeze(v):
    if isinstance(v, dict):
        return _Frozen((k, freeze(x)) for k, x in v.items())
    if isinstance(v, (list, tuple)):
        return tuple(freeze(x) for x in v)
    return v


def judge_entry(spec, entry, held, default, known_usable=False):
    """None if `held` is acceptable for the stored JSON `entry`: it denotes the entry and lies in the value set
    (entry taken), or it is the default (entry ignored; not acceptable for an entry known to be usable)"""
    try:
        res = R.judge(spec, entry, freeze(held), None, 'wire')
        if res is not None and R.judge(spec, entry, freeze(held), freeze(default), 'wire') is None:
            res = None          # a struct entry lacking optional members may be completed from the default
    except Exception as e:      # the reference model met something it cannot look at
        res = ('X', f'{type(e).__name__}: {e}', spec[0])
    if res is None:
        return None
    try:
        isdefault = held == default
    except Exception:
        isdefault = False
    if isdefault and not known_usable:
        return None
    if known_usable:
        return (f'usable-entry-not-restored:{res[0]}:{res[2]}',
                f'stored {entry!r} is a valid value but the module holds {held!r} ({res[1]})')
    # the class of the defect is (clause, kind of the position); the reason text varies with the value
    return (f'unusable-entry-adopted:{res[0]}:{res[2]}',
            f'stored {entry!r} is not usable ({res[1]}) but the module holds {held!r} instead of the default {default!r}')


def corruptions(kind, tier):
    """yield (name, class, bytes or None, dirs) - deterministic order"""
    K = kinds()[kind]
    img, _vals = base_image(kind)
    data = content(img)
    obj = json.loads(data)
    dirs = img[1]

    def dump(o, **kw):
        return (json.dumps(o, indent=2, **kw) + '\n').encode()

    yield 'identity', 'identity', data
    yield 'missing-file', 'missing', None
    yield 'missing-dir', 'missing', 'nodir'
    for n in range(len(data)):
        yield f'truncate@{n}', 'truncation', data[:n]
    for n in range(len(data)):
        for bit in bounds(tier)['flipbits']:
            b = bytearray(data)
            b[n] ^= 1 << bit
            yield f'bitflip@{n}.{bit}', 'bitflip', bytes(b)
    for name, top in (('list', [obj]), ('list-of-pairs', [[k, v] for k, v in obj.items()]), ('empty-list', []),
                      ('null', None), ('number', 5), ('float', 2.5), ('string', 'p'), ('true', True),
                      ('empty-object', {}), ('empty-string', '')):
        yield f'toplevel-{name}', 'toplevel', dump(top)
    yield 'toplevel-garbage', 'toplevel', b'\x00\xff\xfe garbage'
    yield 'toplevel-two-objects', 'toplevel', data + data
    yield 'toplevel-nan', 'toplevel', b'NaN\n'
    for x in PERS:
        for i, bad in enumerate(V.bad(K.specs[x], 'wire')):
            o = dict(obj)
            o[x] = bad
            try:
                yield f'member-{x}#{i}', 'member', dump(o)
            except (TypeError, ValueError):
                continue
        o = dict(obj)
        del o[x]
        yield f'missing-key-{x}', 'missing-key', dump(o)
    for key, val in (('zz', 1), ('n', 5), ('factory_reset', 1), ('description', 'x'), ('', 0), ('persistentData', {}),
                     ('P', obj['p']), ('_p', obj['p']), ('value', 1.0), ('status', [100, '']), ('gone', {'a': [1, {}]})):
        o = dict(obj)
        o[key] = val
        yield f'unknown-key-{key or "empty"}', 'unknown-key', dump(o)
    # stale file written by an older version of the class: other datatypes for the same names
    for other, ospec in KINDS:
        if other != kind:
            oimg, _ = base_image(other)
            yield f'stale-file-of-{other}', 'stale', content(oimg)


def corruption_image(item, _unused=None):
    name, _cls, data = item
    if data == 'nodir':
        return EMPTY
    return clean_image(data)


def check_corruption(part, kind, cfgvar, item):
    K = kinds()[kind]
    name, cls, _d = item
    image = corruption_image(item, None)
    cfg = K.cfg(cfgvar)
    case = {'sub': 'corrupt', 'kind': kind, 'cfg': cfgvar, 'corruption': name}
    part.evaluations += 1
    part.traces += 1
    if cls != 'identity':
        part.nontrivial += 1
    rec = recover(cfg, (kind, cfgvar), image, part)
    defaults = recover(cfg, (kind, cfgvar), EMPTY, part)
    plain_defaults = recover(K.cfg('plain'), (kind, 'plain'), EMPTY, part)
    if defaults[0] != 'ok' or plain_defaults[0] != 'ok':
        raise core.Inconclusive(f'node of kind {kind} does not start on an empty disk: {defaults}')
    data = content(image)
    pk, obj = parse(data)
    base = json.loads(content(base_image(kind)[0]))
    where = f'kind {kind} ({T.sstr(K.spec)}), configuration {cfgvar}, damage {name}: file {data!r}'
    if rec[0] != 'ok':
        part.outcomes[f'corrupt:{cls}:{pk}:start-up-prevented'] += 1
        shape = {'non-object': 'toplevel-non-object', 'object': 'object-with-unusable-member'}.get(pk, pk)
        part.violation(f'C17:load:{shape}:start-up-prevented:{norm(rec[1])}', case,
                       f'{where}: the node does not start: {rec[1]} {rec[2]}')
        return
    vals = rec[1]
    nbad = 0
    for x in PERS:
        if cfgvar == 'given' and x == 'p':
            if not vals[x] == defaults[1][x]:
                nbad += 1
                part.violation(f'C17:precedence:{kind}:stored-value-overrides-configured', case,
                               f'{where}: p is configured as {defaults[1][x]!r} but the module holds {vals[x]!r}')
            continue
        dflt = plain_defaults[1][x]
        if pk != 'object' or x not in obj:
            if not vals[x] == dflt:
                nbad += 1
                part.violation(f'C17:load:{pk}:default-not-applied', case,
                               f'{where}: {x} has no usable entry, the module holds {vals[x]!r}, default {dflt!r}')
            continue
        untouched = x in base and obj[x] == base[x] and json.dumps(obj[x]) == json.dumps(base[x])
        res = judge_entry(K.specs[x], obj[x], vals[x], dflt, known_usable=untouched)
        if res:
            nbad += 1
            part.violation(f'C17:load:{res[0]}', case, f'{where}: {x}: {res[1]}')
    part.outcomes[f'corrupt:{cls}:{pk}:{"ok" if not nbad else "wrong-values"}'] += 1
    if part.evaluations % 997 == 1:
        part.sample({'corruption': name, 'kind': kind, 'file': repr(data)[:80], 'started': True,
                     'values': repr(vals)[:100]})


def shard_corrupt(shard):
    _sub, kind, cfgvar, lo, hi = shard
    part = core.Part()
    seen = set()
    for idx, item in enumerate(corruptions(kind, core.TIER)):
        if not lo <= idx % 8 < hi:
            continue
        key = (item[2],)
        if key not in seen:
            seen.add(key)
            part.states += 1
        check_corruption(part, kind, cfgvar, item)
    return part


# ---- the file is damaged / removed / replaced while the node runs; loadParameters() (power cycle) sees it; next save

def reload_posts(tier):
    """what the running node does between the damage and its regular saveParameters(): [a value change] [loadParameters]
    [a value change] save - every combination (thorough); quick: no leading change, and without a reload only the plain save"""
    changes = [None, ['client', 'p', 1], ['driver', 'r', 0], ['driver', 'q', 0]]
    res = []
    for pre in (changes if tier != 'quick' else [None]):
        for load in (False, True):
            for post in changes:
                if tier == 'quick' and not load and post:
                    continue      # without a reload nothing is judged: quick keeps only the plain save as a control
                res.append([st for st in (pre, ['load'] if load else None, post) if st] + [['save']])
    return res


def damage_fs(fs, item):
    """environment event: the stored file is replaced / removed behind the back of the running node"""
    _name, _cls, data = item
    if data is None or data == 'nodir':
        fs.names.pop(FILE, None)
        if data == 'nodir':
            fs.dirs.discard(PDIR)
    else:
        fs.names[FILE] = memfs.Inode(data)


def check_reload(part, kind, item, post):
    K = kinds()[kind]
    name, cls, _d = item
    img, base_vals = base_image(kind)
    case = {'sub': 'reload', 'kind': kind, 'damage': name, 'post': post}
    part.evaluations += 1
    part.states += 1
    fs = MemFS(img)
    with install(fs):
        try:
            node = build_node(K.cfg('plain'))
        except StartFailed as e:
            raise core.Inconclusive(f'kind {kind}: node does not start on its own base file: {e.what} {e.text}') from None
        try:
            m = node.secnode.modules['m']
            m.writeInitParams()
            conn = node.connect()
            if not same_vals({x: getattr(m, x) for x in PERS}, base_vals):
                raise core.Inconclusive(f'kind {kind}: node started on the base file does not hold the base values')
            damage_fs(fs, item)
            damaged = content(fs.image())
            pk = parse(damaged)[0]
            where = (f'kind {kind} ({T.sstr(K.spec)}): node running with saved values {base_vals!r}; the file is damaged behind its '
                     f'back ({name}: {damaged!r}); then ' + '; '.join(' '.join(map(str, st)) for st in post))
            learned = False      # a loadParameters() that read the damaged file has returned
            changed = False      # a value changed after that
            if cls != 'identity' and ['load'] in post:
                part.nontrivial += 1
            for k, step in enumerate(post, 1):
                fs.label = k
                o = {'step': step, 'label': k, 'wd': bool(m.writeDict)}
                try:
                    if step[:2] == ['driver', 'q']:
                        m.q = 3          # the base value of q is 7
                    else:
                        Scenario.do(step, K, node, m, conn, o)
                except Exception as e:
                    o['exc'], o['msg'] = type(e).__name__, str(e)
                vals = {x: getattr(m, x) for x in PERS}
                image = fs.image()
                if step == ['load']:
                    part.outcomes[f'reload:{cls}:{pk}:load-{"raises-" + o["exc"] if "exc" in o else "returns"}'] += 1
                    if 'exc' not in o:
                        learned = True
                    continue
                if not due(o):
                    part.outcomes[f'reload:{cls}:{pk}:{step[0]}:no-save-due'] += 1
                    changed = changed or step[0] != 'save'
                    continue
                # a save was due: what is on disk now?
                data = content(image)
                problem = None
                if fs.pending():
                    problem = ('handle-left-open', 'a file handle with unflushed data is still open after the save')
                elif parse(data)[0] != 'object':
                    problem = (f'file-{parse(data)[0]}', f'the file is {parse(data)[0]}: {data!r}')
                else:
                    rec = recover(K.cfg('plain'), (kind, 'plain'), image, part)
                    if rec[0] != 'ok':
                        problem = ('restart-fails', f'a node constructed on the file does not start: {rec[1]} {rec[2]}')
                    elif not same_vals(rec[1], vals):
                        problem = ('restart-loses-values', f'file {data!r} gives {rec[1]!r} after a restart, the module holds {vals!r}')
                if step[0] != 'save':
                    changed = True
                how = 'save-after-change' if changed else 'save-without-change'
                if not learned:
                    # the module had no occasion to notice the damage: nothing is demanded (see Oracle calibration)
                    part.outcomes[f'reload:{cls}:{pk}:not-reloaded:{how}:{"file-good" if not problem else problem[0]}'] += 1
                    continue
                part.traces += 1
                part.outcomes[f'reload:{cls}:{pk}:reloaded:{how}:{"ok" if not problem else problem[0]}'] += 1
                if problem:
                    part.violation(f'C17:reload:damaged-file-{pk}:{how}:{problem[0]}', case,
                                   f'{where}: after step {k} ({" ".join(map(str, step))}) the save counts as done, but {problem[1]}')
                    break
            part.transitions += len(fs.log)
        finally:
            node.close()
    if part.evaluations % 499 == 1:
        part.sample({'reload': where[:300], 'file_afterwards': repr(content(fs.image()))[:100]})


def reload_damages(kind, tier):
    return list(corruptions(kind, tier))


def shard_reload(shard):
    _sub, kind, lo, hi = shard
    part = core.Part()
    posts = reload_posts(core.TIER)
    for idx, item in enumerate(reload_damages(kind, core.TIER)):
        if not lo <= idx % 8 < hi:
            continue
        for post in posts:
            check_reload(part, kind, item, post)
    return part


# ---- S4 / S3 across a restart with an edited configuration: every parameter shape x every configured subset

SHAPES = (('a', 'writable-with-write-method'), ('b', 'writable-without-write-method'),
          ('c', 'readonly-with-write-method'), ('d', 'readonly-without-write-method'))
SHAPE_NAMES = tuple(x for x, _ in SHAPES)


def restart_class(kind, flag):
    """one module class per (datatype kind, persistent flag) holding a persistent parameter of every shape
    {writable, readonly} x {own write_<p> method, none}"""
    e = env()
    key = ('restartcls', kind, flag)
    if key not in e:
        P = e['P']
        from frappy.modules import Module
        spec = kinds()[kind].spec
        attrs = {
            'a': P.PersistentParam('a', T.build(spec), persistent=flag, readonly=False),
            'b': P.PersistentParam('b', T.build(spec), persistent=flag, readonly=False),
            'c': P.PersistentParam('c', T.build(spec), persistent=flag),
            'd': P.PersistentParam('d', T.build(spec), persistent=flag),
            'write_a': lambda self, value: value,
            'write_c': lambda self, value: value,
        }
        e[key] = type(f'R_{kind}_{flag}', (P.PersistentMixin, Module), attrs)
    return e[key]


def _observe(cfg, image, part, reload=False):
    """start a node on the image; values of all shapes right after construction and after writeInitParams()
    -> ('ok', values at construction, values after init, final image) | ('fail', what, text)"""
    fs = MemFS(image)
    with install(fs):
        try:
            node = build_node(dict(cfg))
        except StartFailed as e:
            return ('fail', e.what, e.text)
        try:
            m = node.secnode.modules['m']
            v0 = {x: getattr(m, x) for x in SHAPE_NAMES}
            m.writeInitParams()
            v1 = {x: getattr(m, x) for x in SHAPE_NAMES}
            v2 = None
            if reload:
                try:
                    m.loadParameters()      # the driver detects a power cycle: nothing was changed in this run
                    v2 = {x: getattr(m, x) for x in SHAPE_NAMES}
                except Exception as e:
                    v2 = e
            return ('ok', v0, v1, fs, node, m, v2)
        except Exception as e:
            node.close()
            return ('fail', 'exc-after-start:' + type(e).__name__, repr(e))
        finally:
            part.transitions += len(fs.log)


def check_restart(part, kind, flag, run1, given, equal):
    """run 1: start (nothing / everything configured), values change at run time and are saved.
    run 2: restart on that disk with a configuration giving exactly the parameters in `given` (values equal to /
    different from the stored ones).  Configured parameters must hold the configured value, all others the stored one -
    right after construction and after writeInitParams()."""
    K = kinds()[kind]
    cls = restart_class(kind, flag)
    stored_v, other_v = K.drv[0], K.drv[1]
    given = list(given)
    case = {'sub': 'restart', 'kind': kind, 'flag': flag, 'run1': run1, 'given': given, 'equal': bool(equal)}
    where = (f'kind {kind} ({T.sstr(K.spec)}), persistent={flag!r}; run 1 with {run1} configuration, every parameter set to '
             f'{stored_v!r} at run time and saved; run 2 configured with '
             f'{({x: (stored_v if equal else other_v) for x in given})!r}')
    part.evaluations += 1
    part.states += 1
    # ---- run 1
    cfg1 = {'cls': cls}
    if run1 == 'full':
        for x in SHAPE_NAMES:
            cfg1[x] = {'value': other_v}
    r1 = _observe(cfg1, EMPTY, part)
    if r1[0] != 'ok':
        part.outcomes['restart:run-1-start-refused'] += 1
        part.violation(f'C17:restart:run-1:start-up-{norm(r1[1])}', case, f'{where}: run 1 does not start: {r1[1]} {r1[2]}')
        return
    _ok, _v0, _v1, fs1, node1, m1, _v2 = r1
    try:
        with install(fs1):
            exc = None
            try:
                for x in SHAPE_NAMES:
                    setattr(m1, x, stored_v)
                m1.saveParameters()
            except Exception as e:
                exc = e
            live = {x: getattr(m1, x) for x in SHAPE_NAMES}
            part.transitions += len(fs1.log)
    finally:
        node1.close()
    image1 = fs1.image()
    if exc is not None or parse(content(image1))[0] != 'object':
        part.outcomes['restart:run-1-save-fails'] += 1
        part.violation(f'C17:restart:run-1:save-fails:{type(exc).__name__ if exc else "file-" + parse(content(image1))[0]}', case,
                       f'{where}: run 1 could not save: {exc!r}; file {content(image1)!r}')
        return
    # ---- run 2 and its reference (the same configuration on an empty disk: what "the configured value" is)
    cfg2 = {'cls': cls}
    for x in given:
        cfg2[x] = {'value': stored_v if equal else other_v}
    r2 = _observe(cfg2, image1, part, reload=True)
    ref = _observe(cfg2, EMPTY, part, reload=True)
    for r in (r2, ref):
        if r[0] == 'ok':
            r[4].close()
    if ref[0] != 'ok':
        raise core.Inconclusive(f'{where}: the run-2 configuration does not start on an empty disk: {ref[1]} {ref[2]}')
    if r2[0] != 'ok':
        part.outcomes['restart:run-2-start-refused'] += 1
        part.violation(f'C17:restart:run-2:start-up-{norm(r2[1])}', case,
                       f'{where}: the restart on {content(image1)!r} fails: {r2[1]} {r2[2]}')
        return
    if isinstance(r2[6], Exception) or isinstance(ref[6], Exception):
        exc = r2[6] if isinstance(r2[6], Exception) else ref[6]
        part.outcomes['restart:run-2-loadParameters-raises'] += 1
        part.violation(f'C17:restart:run-2:loadParameters-raises-{type(exc).__name__}', case,
                       f'{where}: loadParameters() after the restart raises {exc!r}')
        return
    if given and not equal:
        part.nontrivial += 1
    shapes = dict(SHAPES)
    for x in SHAPE_NAMES:
        part.traces += 1
        problem = None
        for when, held, refv in (('at-construction', r2[1], ref[1]), ('after-writeInitParams', r2[2], ref[2]),
                                 ('after-loadParameters', r2[6], ref[6])):
            if x in given:
                if not held[x] == refv[x]:
                    how = 'stored-value-overrides-configured' if held[x] == live[x] else 'configured-value-not-applied'
                    problem = (how, when, f'{x} ({shapes[x]}) is configured as {refv[x]!r}, the file holds the run-1 value '
                                          f'{live[x]!r}, the restarted module holds {held[x]!r} {when}')
            elif not held[x] == live[x]:
                problem = ('stored-value-not-restored', when,
                           f'{x} ({shapes[x]}) is not configured, run 1 saved {live[x]!r}, the restarted module holds '
                           f'{held[x]!r} {when}')
            if problem:
                break
        part.outcomes[f'restart:{shapes[x]}:{"configured" if x in given else "stored"}:'
                      f'{"ok" if not problem else problem[0]}'] += 1
        if problem:
            part.violation(f'C17:restart:{shapes[x]}:persistent-{flag}:{problem[0]}:{problem[1]}', case,
                           f'{where}; file {content(image1)!r}: {problem[2]}')
    if part.evaluations % 41 == 1:
        part.sample({'restart': where, 'file': repr(content(image1))[:120], 'held_after_restart': repr(r2[2])[:120]})


def restart_cases():
    import itertools
    for flag in ('auto', 'on'):
        for run1 in ('plain', 'full'):
            for n in range(len(SHAPE_NAMES) + 1):
                for given in itertools.combinations(SHAPE_NAMES, n):
                    for equal in (False, True):
                        yield flag, run1, given, equal


def shard_restart(shard):
    _sub, kind = shard
    part = core.Part()
    for flag, run1, given, equal in restart_cases():
        check_restart(part, kind, flag, run1, given, equal)
    return part


# ---- S3 over the whole type catalogue

# text that is a valid value of a UTF-8 string but not valid UTF-8 / not in the BMP: what json.loads makes of "\\ud83d", what
# a driver gets from surrogateescape decoding, astral characters.  (The pair form high + low surrogate as two code points
# is left out: JSON itself reads it back as the one astral character - recorded for C02, nothing C17 could demand.)
EXTRA_TEXT = ['\ud83d', '\ude00', 'x \ud83d', '\ude00\ud83d', '\udc80', '\udcff', 'a\udc80b', '\U0001f600', '\U00010000z',
              '\ud83d\U0001f600', '\u00b0\u00b5', '\uffff']


def extra_valid(spec, entry):
    """further valid values of a type: the texts above at every position that is a UTF-8 string (one position at a time,
    the rest of a container taken from the first catalogue value that has this position)"""
    k = spec[0]
    if k == 'string':
        lo, hi, utf8 = spec[1], spec[2], spec[3]
        return [t for t in EXTRA_TEXT if utf8 and lo <= len(t) and (hi is None or len(t) <= hi)]
    res = []
    if k == 'array':
        base = next((v for v in V.valid(spec, entry) if len(v)), None)
        if base is not None:
            for t in extra_valid(spec[1], entry):
                for i in sorted({0, len(base) - 1}):
                    new = list(base)
                    new[i] = t
                    res.append(new)
    elif k == 'tuple':
        base = V.valid(spec, entry)[0]
        for i, m in enumerate(spec[1]):
            for t in extra_valid(m, entry):
                new = list(base)
                new[i] = t
                res.append(new)
    elif k == 'struct':
        base = next((v for v in V.valid(spec, entry) if len(v) == len(spec[1])), None)
        if base is not None:
            for name, m in spec[1]:
                for t in extra_valid(m, entry):
                    new = dict(base)
                    new[name] = t
                    res.append(new)
    return res


def rt_class(spec):
    e = env()
    cls = e['rtcls'].get(spec)
    if cls is None:
        P = e['P']
        from frappy.modules import Module
        attrs = {
            'p': P.PersistentParam('p', T.build(spec), persistent='auto', readonly=False),
            'r': P.PersistentParam('r', T.build(spec), persistent='auto'),
        }
        cls = e['rtcls'][spec] = type('RT', (P.PersistentMixin, Module), attrs)
    return cls


def check_roundtrip(part, spec, only=None):
    try:
        cls = rt_class(spec)
    except Exception as e:
        part.outcomes[f'roundtrip:class-not-definable:{type(e).__name__}'] += 1
        return
    cfg = {'cls': cls}
    names = ('p', 'r')
    fs = MemFS(EMPTY)
    top = spec[0]
    sj = T.tojson(spec)
    with install(fs):
        try:
            node = build_node(cfg)
        except StartFailed as e:
            part.outcomes[f'roundtrip:type-not-usable-as-parameter:{norm(e.what)}'] += 1
            part.notes.append(f'roundtrip: {T.sstr(spec)} cannot be a parameter: {e.text[:100]}')
            return
        try:
            m = node.secnode.modules['m']
            m.writeInitParams()
            conn = node.connect()
            jobs = [('client', 'p', w) for w in V.valid(spec, 'wire') + extra_valid(spec, 'wire')] + \
                   [('driver', 'r', d) for d in V.valid(spec, 'drv') + extra_valid(spec, 'drv')]
            scratch = core.Part()
            for j, (path, x, v) in enumerate(jobs):
                # the jobs run on one live module, one after the other: a replay re-executes the jobs before the recorded one
                case = {'sub': 'roundtrip', 'spec': sj, 'job': j, 'path': path, 'value': V.enc(v)}
                pt = part
                if only is not None:
                    if j > only['job']:
                        break
                    if j < only['job']:
                        pt = scratch
                pt.evaluations += 1
                pt.states += 1
                nops = len(fs.log)
                previous = freeze(getattr(m, x))      # a partial struct sent by a client is merged with this
                if path == 'client':
                    try:
                        line = f'change m:_p {json.dumps(v)}'
                    except (TypeError, ValueError):
                        pt.outcomes[f'roundtrip:{top}:client:not-json'] += 1
                        continue
                    rep = node.request(conn, line)
                    if rep[0] != 'changed':
                        pt.outcomes[f'roundtrip:{top}:client:refused'] += 1
                        continue
                else:
                    try:
                        setattr(m, 'r', v)
                    except Exception:
                        pt.outcomes[f'roundtrip:{top}:driver:refused'] += 1
                        continue
                if len(fs.log) > nops:
                    pt.nontrivial += 1
                pt.transitions += len(fs.log) - nops
                live, livewire = read_values(node, names)
                image = fs.image()
                data = content(image)
                with_rec = _rt_recover(cfg, image, names, pt)
                pt.traces += 1
                where = f'{T.sstr(spec)} {x} set by {path} to {v!r}: file {data!r}'
                if with_rec[0] != 'ok':
                    pt.outcomes[f'roundtrip:{top}:{path}:reload-fails'] += 1
                    pt.violation(f'C17:roundtrip:{top}:{path}:reload-{norm(with_rec[1])}', case,
                                   f'{where}: a node constructed on it does not start: {with_rec[1]} {with_rec[2]}')
                    continue
                vals, wire = with_rec[1], with_rec[2]
                bad = None
                for y in names:
                    try:
                        eq = vals[y] == live[y]
                    except Exception:
                        eq = False
                    if not eq:
                        bad = ('value-not-equal', f'{y}: module held {live[y]!r}, restored {vals[y]!r}')
                    elif wire[y] != livewire[y]:
                        bad = ('exported-value-differs', f'{y}: module exported {livewire[y]}, restored exports {wire[y]}')
                if not bad and path == 'client':
                    res = R.judge(spec, v, freeze(vals['p']), previous, 'wire')
                    if res:
                        bad = (f'restored-value-does-not-denote-what-was-sent:{res[0]}:{norm(res[1])}', res[1])
                if bad and bad[0] in ('value-not-equal', 'exported-value-differs'):
                    # diagnosis: did the automatic save die silently (callback exceptions are swallowed)?
                    try:
                        m.saveParameters()
                    except OSError:
                        pass
                    except Exception as e:
                        bad = (f'save-raises-{type(e).__name__}',
                               f'{bad[1]}; an explicit saveParameters() raises {e!r} - the automatic save swallowed it and every '
                               f'later save of this module fails the same way')
                pt.outcomes[f'roundtrip:{top}:{path}:{"ok" if not bad else bad[0]}'] += 1
                if bad:
                    pt.violation(f'C17:roundtrip:{top}:{path}:{bad[0]}', case, f'{where}: {bad[1]}')
                elif pt.evaluations % 499 == 1:
                    pt.sample({'type': T.sstr(spec), 'set_by': path, 'value': V.enc(v), 'file': repr(data)[:100],
                                 'restored': repr(vals)[:80]})
        finally:
            node.close()


def _rt_recover(cfg, image, names, part):
    fs = MemFS(image)
    with install(fs):
        try:
            node = build_node(dict(cfg))
        except StartFailed as e:
            return ('fail', e.what, e.text)
        try:
            node.secnode.modules['m'].writeInitParams()
            vals, wire = read_values(node, names)
            return ('ok', vals, wire)
        except Exception as e:
            return ('fail', 'exc-after-start:' + type(e).__name__, repr(e))
        finally:
            part.transitions += len(fs.log)
            node.close()


def shard_roundtrip(shard):
    _sub, specs = shard
    part = core.Part()
    env()
    for spec in specs:
        check_roundtrip(part, spec)
    return part


def shard_fn(shard):
    env()['rec'] = {}     # recovery cache per shard: counters do not depend on which worker ran which shard before
    kinds()
    try:
        return {'history': shard_history, 'construct': shard_construct, 'corrupt': shard_corrupt,
                'roundtrip': shard_roundtrip, 'restart': shard_restart, 'reload': shard_reload}[shard[0]](shard)
    except HealthyDiskFails as e:
        return healthy_fails(core.Part(), e)


def healthy_fails(part, e):
    part.evaluations += 1
    part.states += 1
    part.transitions += 1
    part.traces += 1
    part.outcomes['base-history-fails'] += 1
    part.violation(f'C17:roundtrip:healthy-disk:base-history-fails:{norm(e.what)}', {'sub': 'base', 'kind': e.kind},
                   f'kind {e.kind}: construct; writeInitParams; change p; change r; change q; saveParameters on an empty, '
                   f'healthy disk fails: {e.what}: {e.text}')
    return part


# ------------------------------------------------------------------------------------------------------------

def run(ctx):
    b = bounds(ctx.tier)
    names = kind_names(ctx.tier)
    A = alphabet()
    only = getattr(ctx, 'only', None) or set()
    hw = [k[0] for k in KINDS_HW]      # the crash / fault enumerations also run on the simulated-hardware shapes
    if not only or 'construct' in only:
        ctx.pmap(shard_fn, [('construct', k, c) for k in names + hw for c in ('plain', 'given')], name='construct')
    if not only or 'history' in only:
        # (the hardware shapes with the plain configuration only: configured values on them are in `construct`)
        shards = [('history', k, c, g, first) for k in names + hw for c in ('plain', 'given') for g in ('normal', 'pending')
                  for first in A if not (g == 'pending' and first == ['init']) and not (k in hw and c == 'given')]
        ctx.pmap(shard_fn, shards, name='history')
    if not only or 'corrupt' in only:
        ctx.pmap(shard_fn, [('corrupt', k, c, lo, lo + 2) for k in names for c in ('plain', 'given') for lo in (0, 2, 4, 6)],
                 name='corrupt')
    if not only or 'restart' in only:
        ctx.pmap(shard_fn, [('restart', k) for k in names], name='restart')
    if not only or 'reload' in only:
        ctx.pmap(shard_fn, [('reload', k, lo, lo + 2) for k in names for lo in (0, 2, 4, 6)], name='reload')
    if not only or 'roundtrip' in only:
        types = T.all_types(ctx.tier, b['rt_depth'])
        ctx.pmap(shard_fn, [('roundtrip', types[i:i + 8]) for i in range(0, len(types), 8)], name='roundtrip')
        ctx.coverage['roundtrip_types'] = len(types)
    ctx.rule = (
        'faultx on memfs (buffered handles): [history] module kinds x {plain, configured+existing file} x {after initial '
        f'writeInitParams, writes still pending}} x all histories of {b["L"]} steps over 9 letters (+ fixed epilogue); per history '
        'one recorded dry run; (a)+(b) a process crash before every file-system operation and after the last x every prefix of '
        'the unflushed bytes of the open handle (= every torn write), each distinct image recovered by a freshly constructed real '
        'node; (c) OSError(EIO) from every mutating operation of every step, history continued; the same on 2 simulated-hardware '
        'shapes (controller loses p, q at a power cycle; a write reports back the settings restored later / all settings).  [construct] the same for start-up '
        'on 5 initial disks.  [corrupt] every listed damage of a stored file x {plain, configured}.  [restart] module kinds x '
        'persistent flag {auto, on} x parameter shapes {writable, readonly} x {own write method, none} x run-1 configuration '
        '{nothing, everything} x every subset of the shapes configured at the restart x configured value {differs from, equals} '
        'the stored one, observed at construction, after writeInitParams and after a following loadParameters.  [reload] module kinds x every listed damage applied '
        'to the file of a running node x {loadParameters, none} x value change {none, p by client, r by driver, q by driver} '
        '(thorough: also a change before the reload) x saveParameters, judged after a reload that read the damage.  '
        '[roundtrip] type catalogue x '
        'valid values x {client, driver}.  evaluations = crash cases (point x prefix) + injected errors + damaged files + round '
        'trips + restarts + damaged-while-running cases; states = distinct (step, disk image) pairs / distinct damaged files / round-trip cases; distinct_nontrivial = '
        'crash images that differ from every quiescent image of the fault-free run + injected errors + real damages + round trips '
        'that wrote the file; transitions = file-system operations executed by real code (dry runs, injected runs, recoveries)')
    ctx.coverage.update(
        bound_completed=f'history length {b["L"]} (+epilogue), every fs operation x every unflushed prefix, every mutating fs '
                        f'operation failing once; bit flips {list(b["flipbits"])} of every byte; catalogue depth <= {b["rt_depth"]}',
        module_kinds=names + hw, alphabet=[' '.join(map(str, a)) for a in A], initial_disks=list(INIT_IMAGES))
    ctx.assume(
        'crash model: process crash - completed file-system operations are on disk in program order, a file open for writing '
        'holds its flushed bytes plus any prefix of the unflushed ones; power-loss reordering of unsynced pages is NOT modelled',
        'one injected OSError (EIO) per run, injected into saving only (mutating operations), not into reading the file',
        'the file system is the in-memory model vf/engines/memfs.py seen by frappy.persistent only; rename is atomic',
        'the virtual clock advances 1 s per reading (no update is dropped by omit_unchanged_within); no poller thread runs, '
        'writeInitParams() is called by the history as the poll thread would',
        'a save is claimed to be due only for saveParameters() and changes of auto-persistent parameters with empty writeDict',
        'values, limits, histories and damages outside the catalogues are not covered (e.g. deeply nested JSON, files > 1 kB)')
    if not only or 'conc' in only:
        from vf.harness import c17conc
        c17conc.run_conc(ctx)       # two threads saving at the same time (schedx + memfs)


def replay(case):
    if case.get('kind') == 'conc':
        from vf.harness import c17conc
        return c17conc.replay_conc(case)
    env()
    kinds()
    part = core.Part()
    try:
        return _replay(case, part)
    except HealthyDiskFails as e:
        return healthy_fails(part, e)


def _replay(case, part):
    sub = case['sub']
    if sub == 'history':
        hc = HistoryCheck(part, case['kind'], case['cfg'], case['init'], case['steps'])
        if not hc.dry():
            return part
        chk = case.get('check')
        if chk == 'clean':
            hc.check_clean()
        elif chk == 'startup':
            check_startup_values(part, hc)
        elif chk == 'fault':
            if case['op'] >= len(hc.tr.ops):
                raise core.Inconclusive('replay diverged: the recorded operation index is beyond the operation log of this tree')
            hc.check_fault(case['op'])
        elif chk == 'crash':
            cr = case['crash']
            key = (cr['op'], tuple(sorted((int(k), v) for k, v in cr['choice'].items())), cr['torn'])
            # the hard way first: re-execute with a real crash, then judge exactly that image
            try:
                img = faultx.crash_image(hc.scenario(), hc.make_fs, cr['op'], {int(k): v for k, v in cr['choice'].items()},
                                         cr['torn'], expect_ops=hc.tr.ops)
            except faultx.NonDeterministic as e:
                raise core.Inconclusive(f'replay diverged: {e}') from None
            labels = {cc.label for cc in faultx.crash_cases(hc.tr) if cc.key() == key}
            for cc in faultx.crash_cases(hc.tr, labels):
                if cc.key() == key and cc.image != img:
                    raise core.Inconclusive('replay diverged: re-executed crash image differs from the recorded one')
            hc.check_crashes(labels, only=key)
    elif sub == 'corrupt':
        for item in corruptions(case['kind'], 'thorough'):
            if item[0] == case['corruption']:
                check_corruption(part, case['kind'], case['cfg'], item)
                break
    elif sub == 'roundtrip':
        check_roundtrip(part, T.fromjson(case['spec']), only=case)
    elif sub == 'reload':
        for item in corruptions(case['kind'], 'thorough'):
            if item[0] == case['damage']:
                check_reload(part, case['kind'], item, case['post'])
                break
    elif sub == 'restart':
        check_restart(part, case['kind'], case['flag'], case['run1'], case['given'], case['equal'])
    elif sub == 'base':
        try:
            base_image(case['kind'])
        except HealthyDiskFails as e:
            healthy_fails(part, e)
    return part
