"""C14 - state machine: bounded cycles, exactly-once cleanup, last start wins (sequential part).

Technique (enumx): explicit-state BFS over operation sequences on the real `frappy.lib.statemachine.StateMachine`,
jointly with the answers of scripted state functions.

  * State functions A, B, C, a cleanup function K and a state L (the state K may return) are plain Python functions
    whose k-th call answers from a script: states {Retry, ->A, ->B, ->C, ->L, Finish, a non-callable (42), raise
    RuntimeError}, cleanup {None, ->L, ->A, a non-callable, raise}.  A *profile* fixes the default answer of every
    function ('retry': all states Retry, K None; 'cleanupL': K -> L; 'chainA': A -> A for ever; 'chainAB': A -> B -> A ...;
    'chainL': K -> L, L -> L for ever - the chains hit `maxloops`); a *program* = profile + the entries (function, k) that
    differ from the default.  All programs with <= 2 (quick) / <= 3 (thorough) non-default entries are covered.
  * Operations {cycle, start(A), start(B, attr=n), start(A, cleanup=K), stop} (thorough: + start(C, attr=n, cleanup=K));
    n is a fresh number for every start so that "exactly the attributes of the last start" is observable.
    Sequences of ANY length: the BFS runs to closure of the canonical state graph (every shard closes after histories
    of 9-15 operations; DEPTH = 40 is only a safety bound and reported as a cap if ever reached).  In particular any
    number of requests (start then stop, stop then start, stop stop ...) is issued at every cycle boundary while a
    cleanup sequence spans several cycles (profile 'cleanupL': K -> L, L retries until told otherwise).
  * Enumeration: a node is (operation history, script entries consumed so far that are non-default).  Expanding a node by
    an operation runs vf.engines.enumx.explore_deviations over the function calls made *in that operation* with the
    remaining deviation budget, every execution rebuilding fresh real objects and replaying the history.  Because a
    script entry only matters if it is consumed, this covers exactly the pairs (program with <= N non-default entries,
    operation sequence) - entries never consumed would not change anything.  Nodes are de-duplicated on the canonical
    state (statefunc name, next_task kind + target + attrs, cleanup set, cleanup_reason kind, init flag, machine
    attribute, reference-model state, remaining budget); attribute numbers are renamed in order of appearance.  The
    script counters are *not* part of the canonical state: all forced entries of a node lie in its past, the future
    answers are free choices again, so two nodes with the same canonical state have the same futures (a node is kept if
    it has more budget left than an earlier one with the same state).  A node with a violation is not expanded.
  * maxloops is 10 (the default) and 3 (so that chains built from <= 2 script entries reach the limit, too).

Oracle = `Ref`, an executable reference of the *documented* semantics (module docstring of statemachine.py, the property
statement), which predicts which function is called next, with which init flag and attributes, and whether the machine
is active after a cycle; plus per-cycle monitors.  The reference is driven by the operations and by the answers the
scripted functions gave - it never looks into the StateMachine object.
  R1 `cycle` never raises and makes <= 2 x maxloops + 2 calls; start/stop never raise.
  R2 a state call sees init == True iff it is the first call after a transition into that state (a function returned
     it, the cleanup function returned it, or a start took effect) - a restart of the same function is a transition.
  R3 when a run is interrupted (stop / start while a run is active and no cleanup sequence is running) or fails (raises,
     returns a non-callable, exceeds the loop limit) the cleanup function registered by the start of *that* run is the
     next function called, exactly once; a cleanup sequence (K and the states it leads to) is never interrupted by a
     further start/stop and a failure inside it ends it without calling K again.
  R4 at the end of a cycle the machine is active iff the reference says a state is current: after stop it is inactive
     at the end of the first cycle in which no cleanup sequence is running any more.
  R5 after start(X, attrs) the next state entered once a running cleanup sequence has finished is X, and every call
     sees exactly the attributes of the last start that took effect (a superseded start leaves nothing behind).
  R6 a cycle only ends after a Retry, when the machine is inactive, or after at least maxloops calls.
Oracle calibration (weaker readings): the statement does not say in which cycle a pending start is entered - only the
*order* of calls is prescribed, cycle boundaries are constrained by R6 only; the loop limit may turn into an error
after any number >= maxloops of calls in one cycle (the implementation counts per pass and counts the cleanup call);
attributes of earlier *effective* starts stay on the machine (documented: "items to put as attributes"); the init flag
seen by the cleanup function K is not judged (K is not a state).  Exceptions = Exception subclasses.

module_status: a real module class using `frappy.states.HasStates` + `Drivable` (built through vf.nodes.Node, real
`PollInfo` with a plain threading.Event, no poll thread; `doPoll` driven by hand) with the same scripted functions as
methods (A: @status_code(BUSY, ...), B: @status_code(BUSY), C: no status code, L: @status_code(FINALIZING)) and the
operations {doPoll, start_machine(A) with the default cleanup on_cleanup, start_machine(B, cleanup=K, attr=n),
stop_machine()}; states may in addition return final_status(IDLE, 'done') / final_status(WARN, 'warn').
  S1 from the start request until the machine has finished (reference: a state is current or a start is pending) the
     status parameter is busy (`Drivable.isBusy`) after every operation, and every status update announced in between
     is busy; once the machine has finished the status is not busy.
  S2 the status after the end is the stopped status (IDLE, 'stopped') when the run was ended by stop_machine and no
     final_status() was given after the stop request, and the given final status when the run ended by returning
     final_status(...).  In all other cases (plain Finish, error, custom cleanup) only "not busy" is demanded: the
     statement says "its final or stopped status" and the code keeps whatever idle_status was set last.
  S3 each module reports the status of its OWN state functions: the node has two more HasStates modules, n (another
     class) and k (a subclass of m's class overriding state A), whose state functions have the same names as m's but other
     status decorations; operations probeN / probeK (profile 'retry') use them in between in any order: start in state A
     -> the status must be the module's own decoration, poll, stop, poll -> (IDLE, 'stopped'); and m started from rest
     must show the decoration of its own state function.  Every execution re-runs the real initModule of the three
     modules and puts class-level containers of frappy.states / the harness classes back to their start-up content (a new
     execution stands for a new process).
  stop_machine on a machine that is not active is a documented no-op (also when a start is still pending); the
  reference follows that reading.
"""
import collections

from vf import core
from vf.engines import enumx

PROPERTY = 'C14'

STATES = ('A', 'B', 'C', 'L')
STATE_ANSWERS = ('Retry', '>A', '>B', '>C', '>L', 'Finish', 'noncallable', 'raise')
CLEANUP_ANSWERS = ('None', '>L', '>A', 'noncallable', 'raise')
MODULE_EXTRA = ('final:IDLE', 'final:WARN')
PROFILES = {
    'retry': {},
    'cleanupL': {'K': '>L'},
    'chainA': {'A': '>A'},
    'chainAB': {'A': '>B', 'B': '>A'},
    'chainL': {'K': '>L', 'L': '>L'},
}
MISSING = '<missing>'


# ---------------------------------------------------------------------------------------------
# program scripts

def alphabet(profile, f, module=False):
    """answers of function f under a profile; index 0 is the profile's default"""
    base = CLEANUP_ANSWERS if f == 'K' else STATE_ANSWERS + (MODULE_EXTRA if module else ())
    default = PROFILES[profile].get(f, base[0])
    return (default,) + tuple(a for a in base if a != default)


class Script:
    """behaviour script: the k-th call of function f gives alphabet(f)[entries.get((f, k), 0)].

    `entries` maps (f, k) -> answer index for the calls of the replayed history; calls made after begin_local() are
    *choice points* numbered 0, 1, ... and answered from `local` (position -> answer index); their keys and arities are
    recorded so that the explorer can turn a local deviation into a script entry.
    """

    def __init__(self, profile, entries=None, module=False):
        self.profile = profile
        self.entries = dict(entries or {})
        self.count = collections.Counter()
        self.alph = {f: alphabet(profile, f, module) for f in STATES + ('K',)}
        self.local = None
        self.local_arity = []
        self.local_keys = []

    def begin_local(self, local):
        self.local = dict(local)

    def answer(self, f):
        self.count[f] += 1
        key = (f, self.count[f])
        alph = self.alph[f]
        if self.local is None:
            a = self.entries.get(key, 0)
        else:
            a = self.local.get(len(self.local_arity), 0)
            self.local_arity.append(len(alph))
            self.local_keys.append(key)
        return alph[a]


def entries_to_json(entries):
    return {f'{f}:{k}': a for (f, k), a in sorted(entries.items())}


def entries_from_json(d):
    return {(s.split(':')[0], int(s.split(':')[1])): int(a) for s, a in d.items()}


def describe_entries(profile, entries, module=False):
    return ', '.join(f'call {k} of {f} -> {alphabet(profile, f, module)[a]}' for (f, k), a in sorted(entries.items())) \
        or 'all defaults'


# ---------------------------------------------------------------------------------------------
# reference model of the documented semantics

class Ref:
    """what the documentation promises: which function is called next, with which init flag / attributes.

    cur      name of the current state function or None (machine inactive)
    fresh    the next call of cur is the first one after a transition
    cleanup  name of the cleanup function registered by the start of the current run and not used yet
    due      the registered cleanup function must be the next function called
    reason   None, or why a cleanup sequence is in progress: 'stop' | 'start' | 'error'
    pending  None | ('stop',) | ('start', X, attrs, cleanup)   - the last request wins
    attrs    attributes put on the machine by the starts that took effect
    """

    def __init__(self, maxloops):
        self.maxloops = maxloops
        self.cur = None
        self.fresh = False
        self.cleanup = None
        self.due = False
        self.reason = None
        self.pending = None
        self.attrs = {}
        self.must_end = False
        self.n = 0               # calls since the beginning of the cycle / since the loop limit struck
        self.ended = []          # reasons of the runs that ended, in order ('finish' for a normal end)

    # --- requests
    def post(self, task):
        self.pending = task

    # --- helpers
    def context(self):
        phase = 'inactive' if self.cur is None else 'cleanup-sequence' if self.reason else 'running'
        return f'{phase}:pending={self.pending[0] if self.pending else "none"}'

    def _end_run(self, why):
        self.cur = None
        self.cleanup = None
        self.ended.append(why)

    def _take(self):
        task, self.pending = self.pending, None
        self.reason = None
        if task[0] == 'start':
            _, self.cur, attrs, self.cleanup = task
            self.fresh = True
            self.attrs.update(attrs)

    def expect(self):
        """-> ('end',) | ('cleanup', K) | ('state', X, fresh); performs the steps that need no function call"""
        while True:
            if self.must_end:
                return ('end',)
            if self.due:
                return ('cleanup', self.cleanup)
            if self.cur is None:
                if self.pending:
                    self._take()
                    continue
                return ('end',)
            if self.pending and self.reason is None:     # interrupt - never during a cleanup sequence
                self.reason = self.pending[0]
                if self.cleanup:
                    self.due = True
                else:
                    self._end_run(self.reason)
                continue
            return ('state', self.cur, self.fresh)

    def error(self):
        if self.reason is None:
            self.reason = 'error'
            if self.cleanup:
                self.due = True
            else:
                self._end_run('error')
        else:                       # failure inside a cleanup sequence: interrupted immediately, no second cleanup
            self._end_run(self.reason)

    def state_result(self, ans):
        self.fresh = False
        if ans == 'Retry':
            self.must_end = True
        elif ans == 'Finish' or ans.startswith('final:'):
            self._end_run(self.reason or 'finish')
        elif ans.startswith('>'):
            self.cur, self.fresh = ans[1:], True
        else:
            self.error()

    def cleanup_result(self, ans):
        self.due = False
        self.cleanup = None
        if ans.startswith('>'):
            self.cur, self.fresh = ans[1:], True
        else:                       # None, or a failure of the cleanup function: the run is over
            self._end_run(self.reason)

    def snapshot(self):
        d = dict(self.__dict__)
        d['attrs'] = dict(self.attrs)
        d['ended'] = list(self.ended)
        return d

    def restore(self, d):
        self.__dict__.update(d)
        self.attrs = dict(d['attrs'])
        self.ended = list(d['ended'])

    # --- one observed cycle
    def _match(self, c, exp):
        """-> None if the observed call is what `exp` says (state advanced), else (kind, text)"""
        if exp[0] == 'end':
            return ('call-not-expected', f'{c["f"]} was called although '
                    + ('the previous call returned Retry' if self.must_end else 'no state should be current'))
        if exp[0] == 'cleanup':
            if c['f'] != exp[1]:
                return ('cleanup-not-called', f'{c["f"]} was called where the cleanup function {exp[1]} was due')
            self.cleanup_result(c['ans'])
            return None
        _, f, fresh = exp
        if c['f'] != f:
            if c['f'] in ('K', 'K0'):
                return ('unexpected-cleanup-call', f'cleanup function {c["f"]} called where state {f} was expected')
            return ('wrong-function-called', f'{c["f"]} was called where state {f} was expected')
        if bool(c['init']) != fresh:
            return ('init-flag', f'{f} saw init={c["init"]} but it is {"" if fresh else "not "}the first call after a '
                    f'transition')
        if c['attr'] != self.attrs.get('attr', MISSING):
            return ('attributes', f'{f} saw attr={c["attr"]} but the last start that took effect gave '
                    f'{self.attrs.get("attr", MISSING)}')
        self.state_result(c['ans'])
        return None

    def copy(self):
        r = Ref.__new__(Ref)
        r.restore(self.snapshot())
        return r

    def key(self):
        return (self.cur, self.fresh, self.cleanup, self.due, self.reason, repr(self.pending), repr(sorted(self.attrs.items())),
                self.must_end, min(self.n, self.maxloops), tuple(self.ended))

    def canon(self, rk):
        p = self.pending
        return (self.cur, self.fresh if self.cur else None, self.cleanup, self.due, self.reason,
                (p[0], p[1], rk(p[2].get('attr', MISSING)), p[3]) if p and p[0] == 'start' else p,
                rk(self.attrs.get('attr', MISSING)))


class RefSet:
    """the reference as a set of alternatives.

    The documentation fixes the order of calls but not *when* the loop limit strikes ("the maximum number of statefunc
    functions called in sequence without Retry"): after at least `maxloops` calls since the beginning of the cycle or
    since the last time the limit struck, the machine may treat the chain in progress as a failure of the current state.
    An observed cycle is accepted if at least one alternative explains it; alternatives that survive are carried on.
    """

    def __init__(self, maxloops):
        self.alts = [Ref(maxloops)]

    def post(self, task):
        for r in self.alts:
            r.post(task)

    def context(self):
        return self.alts[0].context()

    @property
    def primary(self):
        return self.alts[0]

    def running(self):
        """set of opinions whether a run is in progress (state current or start pending)"""
        return {r.cur is not None or bool(r.pending and r.pending[0] == 'start') for r in self.alts}

    @staticmethod
    def _dedupe(alts):
        seen, res = set(), []
        for r in alts:
            k = r.key()
            if k not in seen:
                seen.add(k)
                res.append(r)
        return res

    def cycle(self, calls, active_after):
        """feed the calls observed during one cycle; -> list of (kind, context, text), empty if some alternative
        explains the observation"""
        for r in self.alts:
            r.must_end = False
            r.n = 0
        alts = self.alts
        for c in calls:
            nxt, firstbad = [], None
            for r in alts:
                ctx = r.context()
                r1 = r.copy()
                bad = r1._match(c, r1.expect())
                if bad is None:
                    r1.n += 1
                    nxt.append(r1)
                elif firstbad is None:
                    firstbad = (bad[0], ctx, bad[1])
                r2 = r.copy()
                if r2.expect()[0] == 'state' and r2.n >= r2.maxloops:     # the loop limit strikes before this call
                    r2.error()
                    r2.n = 0
                    if r2._match(c, r2.expect()) is None:
                        r2.n += 1
                        nxt.append(r2)
            if not nxt:
                return [firstbad]
            alts = self._dedupe(nxt)
        fin, firstbad = [], None
        for r in alts:
            ctx = r.context()
            exp = r.expect()
            variants = []
            if exp[0] == 'end':
                variants.append(r)
            elif len(calls) >= r.maxloops and exp[0] == 'state':
                variants.append(r)            # out of passes (R6): the chain goes on in the next cycle
                if r.n >= r.maxloops:
                    r2 = r.copy()
                    r2.error()                # or the loop limit struck at the end of the cycle
                    r2.n = 0
                    if r2.due:
                        firstbad = firstbad or ('cleanup-not-called', ctx, 'the loop limit was reached, the machine is '
                                                'inactive, but the cleanup function was not called')
                    else:
                        r2.expect()           # a pending request is taken
                        variants.append(r2)
            else:
                firstbad = firstbad or ('cycle-ended-early', ctx, f'the cycle ended after {len(calls)} calls although '
                                        f'{exp} was next')
            for v in variants:
                v.must_end = False
                if (v.cur is not None) == bool(active_after):
                    fin.append(v)
                else:
                    firstbad = firstbad or ('active-state', ctx, f'after the cycle is_active={bool(active_after)} but '
                                            + (f'state {v.cur} should be current' if v.cur else
                                               'the machine should be inactive'))
        if not fin:
            return [firstbad]
        self.alts = self._dedupe(fin)
        return []

    def canon(self, rk):
        return tuple(sorted((r.canon(rk) for r in self.alts), key=repr))


# ---------------------------------------------------------------------------------------------
# the real state machine with scripted functions

class TimeShim:
    t = 1000.0

    @classmethod
    def time(cls):
        cls.t += 0.001
        return cls.t


class NullLog:
    def debug(self, *args, **kwds):
        pass
    info = warning = error = exception = debug


def get_sm():
    import frappy.lib.statemachine as smmod
    smmod.time = TimeShim
    return smmod


class Machine:
    """a fresh real StateMachine + scripted functions A, B, C, L, K; `do(op)` executes one operation and returns what
    the functions observed.  Importable for other (e.g. concurrent) sub-checks."""

    def __init__(self, script, maxloops=10):
        self.smmod = get_sm()
        self.script = script
        self.calls = []
        self.nstart = 0
        self.fn = {}
        for name in STATES + ('K',):
            self.fn[name] = self._make(name)
        self.sm = self.smmod.StateMachine(logger=NullLog(), maxloops=maxloops)

    def _make(self, name):
        def func(sm):
            return self.called(name, sm)
        func.__name__ = func.__qualname__ = name
        return func

    def called(self, name, sm):
        ans = self.script.answer(name)
        self.calls.append({'f': name, 'init': sm.init, 'attr': getattr(sm, 'attr', MISSING), 'ans': ans})
        return self.result(ans)

    def result(self, ans):
        if ans == 'Retry':
            return self.smmod.Retry
        if ans == 'Finish':
            return self.smmod.Finish
        if ans == 'None':
            return None
        if ans == 'noncallable':
            return 42
        if ans == 'raise':
            raise RuntimeError('scripted failure')
        return self.fn[ans[1:]]

    def do(self, op):
        """-> (calls, exception or None, task posted or None)"""
        self.calls = []
        task = None
        try:
            if op == 'cycle':
                self.sm.cycle()
            elif op == 'stop':
                task = ('stop',)
                self.sm.stop()
            elif op == 'startA':
                task = ('start', 'A', {}, None)
                self.sm.start(self.fn['A'])
            elif op == 'startAK':
                task = ('start', 'A', {}, 'K')
                self.sm.start(self.fn['A'], cleanup=self.fn['K'])
            elif op in ('startB', 'startCK'):
                self.nstart += 1
                x = op[5]
                task = ('start', x, {'attr': self.nstart}, 'K' if op.endswith('K') else None)
                if task[3]:
                    self.sm.start(self.fn[x], attr=self.nstart, cleanup=self.fn['K'])
                else:
                    self.sm.start(self.fn[x], attr=self.nstart)
            else:
                raise ValueError(op)
        except Exception as e:      # noqa
            return self.calls, e, task
        return self.calls, None, task

    def active(self):
        return self.sm.is_active

    def canon(self, rk):
        sm = self.sm
        nt = sm.next_task
        if isinstance(nt, self.smmod.Start):
            kw = nt.kwds
            ntc = ('start', nt.newstate.__name__, rk(kw.get('attr', MISSING)), getattr(kw.get('cleanup'), '__name__', None))
        else:
            ntc = 'stop' if nt is not None else None
        r = sm.cleanup_reason
        rc = None if r is None else 'error' if isinstance(r, Exception) else type(r).__name__.lower()
        return (getattr(sm.statefunc, '__name__', None), bool(sm.init), getattr(sm.cleanup, '__name__', None), rc, ntc,
                rk(getattr(sm, 'attr', MISSING)))


def renamer():
    seen = []

    def rk(v):
        if v == MISSING or v is None:
            return v
        if v not in seen:
            seen.append(v)
        return seen.index(v)
    return rk


def check_op(ref, op, calls, exc, task, active, maxloops):
    """-> list of (kind, context, text) for one executed operation"""
    ctx = ref.context()
    if exc is not None:
        return [(f'{"cycle" if op == "cycle" else "request"}-raised:{type(exc).__name__}', ctx,
                 f'{op} raised {type(exc).__name__}: {exc}')]
    if op != 'cycle':
        ref.post(task)
        return []
    if len(calls) > 2 * maxloops + 2:
        return [('too-many-calls-in-one-cycle', ctx, f'{len(calls)} calls in one cycle (maxloops={maxloops})')]
    return ref.cycle(calls, active)


class Result:
    pass


def execute(shard, ops, entries, local):
    """rebuild fresh objects, replay `ops` with script `entries`; the calls of the last operation are choice points
    answered from `local`"""
    script = Script(shard['profile'], entries)
    m = Machine(script, shard['maxloops'])
    ref = RefSet(shard['maxloops'])
    res = Result()
    res.violations = []
    res.ncalls = 0
    for i, op in enumerate(ops):
        last = i == len(ops) - 1
        if last and local is not None:
            script.begin_local(local)
        calls, exc, task = m.do(op)
        res.ncalls += len(calls)
        v = check_op(ref, op, calls, exc, task, m.active(), shard['maxloops'])
        if v and not last:
            raise core.Inconclusive(f'violation {v} inside a replayed prefix {ops[:i + 1]} (non-determinism)')
        res.violations = v
        res.calls = calls
    rk = renamer()
    res.canon = (m.canon(rk), ref.canon(rk))
    res.local_arity = script.local_arity
    res.local_keys = script.local_keys
    res.ref = ref
    res.machine = m
    return res


def op_class(res):
    """observable outcome class of the last operation (vacuity indicator)"""
    calls = res.calls
    kinds = sorted({('K' if c['f'] == 'K' else 'S') + ':' + (c['ans'] if not c['ans'].startswith('>') else '>')
                    for c in calls})
    return ' '.join(kinds) or 'no-call'


def bfs(shard, part, explorer=execute, sub='sm'):
    """BFS over operation sequences x script deviations for one (profile, maxloops[, first operation]) shard"""
    allops = shard['ops']
    first = shard.get('first')
    seen = {}
    frontier = [((), {}, shard['budget'])]
    for depth in range(shard['depth']):
        nxt = []
        for hist, entries, budget in frontier:
            for op in ((first,) if first and not hist else allops):
                ops2 = hist + (op,)

                def run_one(local, count, ops2=ops2, entries=entries, budget=budget):
                    res = explorer(shard, ops2, entries, local)
                    part.evaluations += 1
                    part.traces += 1
                    part.transitions += len(ops2) + res.ncalls
                    cls = op_class(res)
                    part.outcomes[f'{ops2[-1]}|{res.ref.context()}|{cls}'] += 1
                    if cls not in ('no-call', 'S:Retry'):
                        part.nontrivial += 1
                    ent2 = dict(entries)
                    for p, a in local.items():
                        ent2[res.local_keys[p]] = a
                    if res.violations:
                        for kind, ctx, text in res.violations:
                            case = {'sub': sub, 'profile': shard['profile'], 'maxloops': shard['maxloops'],
                                    'ops': list(ops2), 'script': entries_to_json(ent2)}
                            detail = (f'profile {shard["profile"]} (maxloops={shard["maxloops"]}), script: '
                                      f'{describe_entries(shard["profile"], ent2, sub == "module")}; operations '
                                      f'{list(ops2)}; in the last operation the functions observed '
                                      f'{[(c["f"], "init" if c["init"] else "-", c["attr"], c["ans"]) for c in res.calls]}: '
                                      f'{text}')
                            sig = f'C14:{sub}:{kind}:{ctx}'
                            old = part.violations.get(sig)
                            part.violation(sig, case, detail)
                            if old is not None and len(case['ops']) + len(ent2) < len(old[1]['ops']) + len(old[1]['script']):
                                old[1], old[2] = case, detail[:2000]
                    else:
                        left = budget - len(local)
                        if seen.get(res.canon, -1) < left:
                            seen[res.canon] = left
                            nxt.append((ops2, ent2, left))
                            if len(nxt) % 97 == 1:
                                part.sample({'profile': shard['profile'], 'ops': list(ops2),
                                             'script': describe_entries(shard['profile'], ent2, sub == 'module'),
                                             'state': repr(res.canon[0])})
                    return res.local_arity
                enumx.explore_deviations(run_one, budget)
        part.extra[f'{sub}_nodes_expanded'] += len(frontier)
        frontier = nxt
        if not frontier:
            part.extra[f'{sub}_shards_closed'] += 1      # every reachable canonical state has been expanded
            part.notes.append(f'{sub} {shard["profile"]}/maxloops={shard["maxloops"]}: closure after histories of length '
                              f'{depth + 1}, {len(seen)} canonical states')
            break
    else:
        part.caps.append(f'{sub} {shard["profile"]}/maxloops={shard["maxloops"]}: no closure within {shard["depth"]} operations')
    part.states += len(seen)
    return part


# ---------------------------------------------------------------------------------------------
# module part: HasStates + Drivable

_modcls = {}
_WORLD = [None]      # the ModuleWorld whose functions are being called


def module_class():
    if _modcls:
        return _modcls['SMod']
    get_sm()
    from frappy.core import Drivable, Parameter, BUSY, IDLE, WARN
    from frappy.datatypes import StatusType
    from frappy.states import HasStates, status_code

    class SMod(HasStates, Drivable):
        status = Parameter(datatype=StatusType(Drivable, 'FINALIZING'))

        def read_value(self):
            return 0.0

        @status_code(BUSY, 'state a')
        def A(self, sm):
            return _WORLD[0].called('A', sm)

        @status_code(BUSY)
        def B(self, sm):
            return _WORLD[0].called('B', sm)

        def C(self, sm):
            return _WORLD[0].called('C', sm)

        @status_code('FINALIZING')
        def L(self, sm):
            return _WORLD[0].called('L', sm)

        def K(self, sm):
            return _WORLD[0].called('K', sm)

        def on_cleanup(self, sm):
            _WORLD[0].calls.append({'f': 'K0', 'init': sm.init, 'attr': getattr(sm, 'attr', MISSING), 'ans': 'None'})
            return super().on_cleanup(sm)

    from frappy.lib.statemachine import Retry

    class SMod2(HasStates, Drivable):
        """another module class in the same node whose state functions have the SAME NAMES as SMod's but other status
        decorations (A: WARN 'slow a'); not scripted (A retries for ever)"""

        def read_value(self):
            return 0.0

        @status_code(WARN, 'slow a')
        def A(self, sm):
            return Retry

        @status_code(BUSY, 'other b')
        def B(self, sm):
            return Retry

    class SModSub(SMod):
        """subclass of SMod overriding state A with another decoration"""

        @status_code(BUSY, 'sub a')
        def A(self, sm):
            return Retry

    _modcls.update(SMod=SMod, SMod2=SMod2, SModSub=SModSub, IDLE=IDLE, WARN=WARN, BUSY=BUSY)
    # hand-written from the decorations above: the status a module must report when its machine is started in a state
    _modcls['OWN'] = {'m': {'A': (int(BUSY), 'state a'), 'B': (int(BUSY), 'B')},
                      'n': {'A': (int(WARN), 'slow a')}, 'k': {'A': (int(BUSY), 'sub a')}}
    return SMod


class ModuleWorld:
    """one real node with three HasStates modules - m (SMod, scripted, the module under operation), n (SMod2) and k
    (SModSub), whose state functions share names but not status decorations - re-initialised for every execution"""

    def __init__(self):
        from vf import nodes
        import logging
        module_class()
        self.node = nodes.Node({'m': {'cls': _modcls['SMod']}, 'n': {'cls': _modcls['SMod2']},
                                'k': {'cls': _modcls['SModSub']}})
        self.mods = {name: self.node.secnode.modules[name] for name in 'mnk'}
        self.mod = self.mods['m']
        for lg in [self.node.log] + [x.log for x in self.mods.values()]:
            lg.setLevel(logging.CRITICAL)
        self.saved = {name: {pn: (po.value, po.timestamp, po.readerror) for pn, po in x.parameters.items()}
                      for name, x in self.mods.items()}
        self.cbs = {name: {k: list(v) for k, v in x.paramCallbacks.items()} for name, x in self.mods.items()}
        # class-level containers of the mixin under test and of the harness classes: a new execution stands for a new
        # process, so whatever an execution leaves in them is put back to the state after start-up
        self.class_state = []
        seen = set()
        for x in self.mods.values():
            for klass in type(x).__mro__:
                if klass in seen or klass.__module__ not in ('frappy.states', __name__):
                    continue
                seen.add(klass)
                for attr, val in vars(klass).items():
                    if isinstance(val, (dict, list, set)) and not attr.startswith('__'):
                        self.class_state.append((val, type(val)(val)))
        self.updates = []
        self.calls = []
        self.script = None
        self.nstart = 0
        self.probed = ()
        self.probe_result = None

    def reset(self, script):
        import threading
        from frappy.modulebase import PollInfo
        for val, saved in self.class_state:
            if val != saved:
                if isinstance(val, list):
                    val[:] = saved
                else:
                    val.clear()
                    val.update(saved)
        for name, x in self.mods.items():
            for pn, po in x.parameters.items():
                po.value, po.timestamp, po.readerror = self.saved[name][pn]
            x.paramCallbacks = {k: list(v) for k, v in self.cbs[name].items()}
            x.polledModules.clear()
            x.initModule()            # the real initialisation (creates the state machine and whatever it caches)
            x.pollInfo = PollInfo(x.pollinterval, threading.Event())
        self.mod.addCallback('status', self.on_status)
        self.script = script
        self.nstart = 0
        self.updates = []
        self.probed = ()
        self.probe_result = None
        self.node.loghandler.records.clear()
        _WORLD[0] = self

    def probe(self, name):
        """self-contained use of another module: start its state A, poll once, stop, poll; returns what it reported"""
        x = self.mods[name]
        calls, self.calls = self.calls, []
        try:
            x.start_machine(x.A)
            s1 = (int(x.status[0]), x.status[1])
            x.doPoll()
            s2 = (int(x.status[0]), x.status[1])
            x.stop_machine()
            x.doPoll()
            s3 = (int(x.status[0]), x.status[1])
            return name, s1, s2, s3, x._state_machine.is_active
        finally:
            self.calls = calls

    def on_status(self, value, err=None):
        self.updates.append(tuple(value))

    def called(self, name, sm):
        ans = self.script.answer(name)
        self.calls.append({'f': name, 'init': sm.init, 'attr': getattr(sm, 'attr', MISSING), 'ans': ans})
        m = self.mod
        sm_mod = get_sm()
        if ans == 'Retry':
            return sm_mod.Retry
        if ans == 'Finish':
            return sm_mod.Finish
        if ans == 'final:IDLE':
            return m.final_status(_modcls['IDLE'], 'done')
        if ans == 'final:WARN':
            return m.final_status(_modcls['WARN'], 'warn')
        if ans == 'None':
            return None
        if ans == 'noncallable':
            return 42
        if ans == 'raise':
            raise RuntimeError('scripted failure')
        return getattr(m, ans[1:])

    def do(self, op):
        self.calls = []
        self.updates = []
        m = self.mod
        task = None
        try:
            if op == 'poll':
                m.doPoll()
            elif op == 'stop':
                task = ('stop',)
                m.stop_machine()
            elif op == 'startA':
                task = ('start', 'A', {}, 'K0')
                m.start_machine(m.A)
            elif op == 'startBK':
                self.nstart += 1
                task = ('start', 'B', {'attr': self.nstart}, 'K')
                m.start_machine(m.B, cleanup=m.K, attr=self.nstart)
            elif op in ('probeN', 'probeK'):
                name = op[-1].lower()
                self.probe_result = self.probe(name)
                self.probed = tuple(sorted(set(self.probed) | {name}))
            else:
                raise ValueError(op)
        except Exception as e:   # noqa
            return self.calls, e, task
        return self.calls, None, task

    def close(self):
        self.node.close()


_world_cache = {}


def module_execute(shard, ops, entries, local, world=None):
    world = world or _world_cache.get('w')
    if world is None:
        world = _world_cache['w'] = ModuleWorld()
    script = Script(shard['profile'], entries, module=True)
    world.reset(script)
    m = world.mod
    ref = RefSet(m._state_machine.maxloops)
    res = Result()
    res.violations = []
    res.ncalls = 0
    stop_seq = None          # index (in the list of all calls) of the last effective stop request
    allcalls = []
    for i, op in enumerate(ops):
        last = i == len(ops) - 1
        if last and local is not None:
            script.begin_local(local)
        was_running = ref.running()
        nended = len(ref.primary.ended)
        calls, exc, task = world.do(op)
        res.ncalls += len(calls)
        allcalls += calls
        ctx = ref.context()
        v = []
        if exc is not None:
            v = [(f'{op if op == "poll" else "request"}-raised:{type(exc).__name__}', ctx, f'{op} raised {exc!r}')]
        elif op == 'poll':
            v = ref.cycle(calls, m._state_machine.is_active)
        elif op == 'stop':
            for r in ref.alts:
                if r.cur is not None:       # documented: nothing happens when the machine is not running
                    r.post(task)
                    stop_seq = len(allcalls)
        elif op.startswith('probe'):
            name, s1, s2, s3, active = world.probe_result
            own = _modcls['OWN'][name]['A']
            if s1 != own or s2 != own:
                v = [('own-status-not-reported', f'{op}:{ctx}', f'module {name} started in its state A reported {s1} and, '
                      f'after a poll, {s2}; its own state function is decorated {own}')]
            elif active or s3 != (int(_modcls['IDLE']), 'stopped'):
                v = [('stopped-status-not-reported', f'{op}:{ctx}', f'module {name} after stop + poll: active={active}, '
                      f'status {s3}')]
        else:
            ref.post(task)
            if was_running == {False}:      # started from rest: the module must show the status of its OWN state function
                st = (int(m.status[0]), m.status[1])
                own = _modcls['OWN']['m'][task[1]]
                if st != own:
                    v = [('own-status-not-reported', f'{op}:{ctx}', f'after {op} from rest the status is {st}; the state '
                          f'function {task[1]} of this module is decorated {own}')]
        if not v:
            v = check_status(world, ref, op, ctx, was_running, nended, stop_seq, allcalls)
        if v and not last:
            raise core.Inconclusive(f'violation {v} inside a replayed prefix {ops[:i + 1]} (non-determinism)')
        res.violations = v
        res.calls = calls
    rk = renamer()
    sm = m._state_machine
    nt = sm.next_task
    sm_mod = get_sm()
    if isinstance(nt, sm_mod.Start):
        ntc = ('start', nt.newstate.__name__, rk(nt.kwds.get('attr', MISSING)), getattr(nt.kwds.get('cleanup'), '__name__', None))
    else:
        ntc = 'stop' if nt is not None else None
    r = sm.cleanup_reason
    rc = None if r is None else 'error' if isinstance(r, Exception) else type(r).__name__.lower()
    impl = (getattr(sm.statefunc, '__name__', None), bool(sm.init), getattr(sm.cleanup, '__name__', None), rc, ntc,
            rk(getattr(sm, 'attr', MISSING)), tuple(m.status), tuple(sm.status), tuple(sm.idle_status),
            bool(sm.reset_fast_poll), m.pollInfo.fast_flag,
            None if stop_seq is None else not any(c['ans'].startswith('final:') for c in allcalls[stop_seq:]),
            world.probed)
    res.canon = (impl, ref.canon(rk))
    res.local_arity = script.local_arity
    res.local_keys = script.local_keys
    res.ref = ref
    return res


def check_status(world, ref, op, ctx, was_running, nended, stop_seq, allcalls):
    m = world.mod
    status = tuple(m.status)
    busy_now = bool(m.isBusy(status))
    if len(ref.running()) > 1 or len(was_running) > 1:
        return []       # the alternatives of the reference disagree (loop limit): nothing is demanded of the status
    running, was_running = min(ref.running()), min(was_running)
    ref = ref.primary
    fmt = lambda s: f'({int(s[0])}, {s[1]!r})'    # noqa
    if running and not busy_now:
        return [('status-not-busy-while-running', f'{op}:{ctx}', f'after {op} the status is {fmt(status)} but '
                 + (f'state {ref.cur} is current' if ref.cur else 'a start is pending'))]
    if not running and busy_now:
        return [('status-busy-after-finish', f'{op}:{ctx}', f'after {op} the status is {fmt(status)} but the machine '
                 f'has finished')]
    ups = [bool(m.isBusy(u)) for u in world.updates]
    if running and (was_running or op != 'poll') and not all(ups):
        bad = next(u for u, b in zip(world.updates, ups) if not b)
        return [('non-busy-status-announced-while-running', f'{op}:{ctx}',
                 f'during {op} the status {fmt(bad)} was announced although the run goes on')]
    if not running and any(b and any(not x for x in ups[:i]) for i, b in enumerate(ups)):
        return [('busy-status-announced-after-final-status', f'{op}:{ctx}',
                 f'during {op} the statuses {[fmt(u) for u in world.updates]} were announced')]
    if not running and was_running and len(ref.ended) > nended:
        why = ref.ended[-1]
        finals = [c['ans'] for c in allcalls[stop_seq or 0:] if c['ans'].startswith('final:')]
        if why == 'stop' and not finals:
            if status != (int(_modcls['IDLE']), 'stopped'):
                return [('stopped-status-not-reported', f'{op}:{ctx}', f'the run was stopped, status is {fmt(status)}')]
        elif why == 'finish' and allcalls and allcalls[-1]['ans'].startswith('final:'):
            want = {'final:IDLE': (int(_modcls['IDLE']), 'done'), 'final:WARN': (int(_modcls['WARN']), 'warn')}[allcalls[-1]['ans']]
            if (int(status[0]), status[1]) != want:
                return [('final-status-not-reported', f'{op}:{ctx}', f'the run ended with final_status{want}, status is '
                         f'{fmt(status)}')]
    return []


# ---------------------------------------------------------------------------------------------

DEPTH = 40     # safety bound on the length of operation sequences; every shard reaches closure long before (measured)


def bounds(tier):
    """the BFS runs to *closure* of the canonical state graph (all operation sequences of any length, in particular any
    number of requests issued at every cycle boundary while a cleanup sequence spans several cycles); `depth` is only a
    safety bound - a shard that does not close before it reports a cap"""
    if tier == 'quick':
        return dict(budget=2, depth=DEPTH, ops=('cycle', 'startA', 'startB', 'startAK', 'stop'),
                    mbudget=2, mdepth=DEPTH)
    return dict(budget=3, depth=DEPTH, ops=('cycle', 'startA', 'startB', 'startAK', 'startCK', 'stop'),
                mbudget=3, mdepth=DEPTH)


MODULE_OPS = ('poll', 'startA', 'startBK', 'stop')
# use of the other modules of the node (same state names, other status decorations) in between, in any order; only in the
# profile with the smallest state graph (the dimension does not depend on the script profile)
PROBE_OPS = ('probeN', 'probeK')
PROBE_PROFILES = ('retry',)


def sm_shards(tier):
    b = bounds(tier)
    return [dict(profile=p, maxloops=ml, ops=b['ops'], depth=b['depth'], budget=b['budget'])
            for p in PROFILES for ml in (10, 3)]


def sm_shard_fn(shard):
    """one shard = one profile and maxloops, explored to closure"""
    part = core.Part()
    bfs(shard, part, execute, 'sm')
    return part


def module_shards(tier):
    b = bounds(tier)
    return [dict(profile=p, maxloops=10, ops=MODULE_OPS + (PROBE_OPS if p in PROBE_PROFILES else ()), depth=b['mdepth'],
                 budget=b['mbudget'])
            for p in PROFILES]


def module_shard_fn(shard):
    part = core.Part()
    bfs(shard, part, module_execute, 'module')
    return part


def run(ctx):
    b = bounds(ctx.tier)
    only = getattr(ctx, 'only', None) or set()
    if not only or 'sm_sequences' in only:
        ctx.pmap(sm_shard_fn, sm_shards(ctx.tier), name='sm_sequences')
    if not only or 'module_status' in only:
        ctx.pmap(module_shard_fn, module_shards(ctx.tier), name='module_status')
    ctx.rule = (
        'enumeration: BFS over operation sequences on fresh real StateMachine objects (every execution replays its '
        f'history), operations {list(b["ops"])}, run to CLOSURE of the canonical state graph (= all operation sequences of '
        f'any length; safety bound {DEPTH}), x state-function programs = profile {list(PROFILES)} x maxloops {{10, 3}} + <= '
        f'{b["budget"]} non-default script entries (k-th call of A/B/C/L returns Retry / a state / Finish / non-callable / '
        'raises; cleanup K returns None / a state / non-callable / raises), the entries being chosen among the calls '
        'actually made (explore_deviations per operation); nodes de-duplicated on (implementation state, reference state, '
        'remaining budget). module_status: the same on a real HasStates+Drivable module with operations '
        f'{list(MODULE_OPS)} (+ {list(PROBE_OPS)} = use of two other HasStates modules with equally named, differently '
        f'decorated state functions, profile {list(PROBE_PROFILES)}), to closure, <= {b["mbudget"]} entries. '
        'evaluations = executions (each replays a whole history); distinct_nontrivial = executions whose last operation '
        'did more than retry (finish, transition, interrupt, cleanup, failure); states = distinct canonical states per shard '
        '(profile x maxloops), summed; transitions = operations + scripted function calls executed')
    ctx.coverage.update(bound_completed=f'closure of the state graph (all sequence lengths), <= {b["budget"]} non-default script '
                        f'entries (module: closure, <= {b["mbudget"]})',
                        profiles=list(PROFILES))
    from vf.harness import c14conc
    c14conc.run_conc(ctx)       # start / stop from a second thread between any two steps of a cycle (schedx)
    ctx.assume('sequential sub-checks: start/stop/cycle are never concurrent there (the concurrent sub-check covers that)',
               'state functions are plain functions with a __name__; exceptions are Exception subclasses',
               'module part: state functions carry busy status codes (BUSY / FINALIZING) or none',
               'no transition hook in the bare state machine part (the module part uses HasStates.state_transition)')


def replay(case):
    if case.get('kind') == 'conc':
        from vf.harness import c14conc
        return c14conc.replay_conc(case)
    part = core.Part()
    sub = case.get('sub', 'sm')
    shard = dict(profile=case['profile'], maxloops=case['maxloops'])
    entries = entries_from_json(case['script'])
    ops = tuple(case['ops'])
    if sub == 'module':
        world = ModuleWorld()
        try:
            res = module_execute(shard, ops, entries, None, world=world)
        finally:
            world.close()
    else:
        res = execute(shard, ops, entries, None)
    part.evaluations = part.traces = 1
    for kind, ctx, text in res.violations:
        part.violation(f'C14:{sub}:{kind}:{ctx}', case, text)
    return part
