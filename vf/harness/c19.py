"""C19 - discovery responder: bounded well-formed answers, unkillable by datagrams.

enumx: bounded-exhaustive enumeration against the real `frappy.protocol.discovery.UDPListener` (constructor = length
budgeting / truncation, `run()` = start-up broadcast + receive loop) and, for "a TCP port it really listens on", the real
`frappy.server.Server.run` (interface start-up, listener creation).

What is real / fake
  real: UDPListener.__init__, _getMessage, run (its body is executed in the exploring thread), Server.run,
        Server._interfaceThread, Server._processCfg, SecNode, MultiEvent.
  fake: the name `socket` seen by frappy.protocol.discovery (a namespace whose `socket()` returns a scripted datagram
        socket: recvfrom hands out the scripted datagrams, truncated to the requested buffer size as a UDP socket does,
        and then raises OSError - exactly what `shutdown()` -> closeSocket produces in the blocked recvfrom of the real
        thread and what the loop's own `except socket.error: return` expects); `get_version` (constant, vf.nodes);
        for Server.run: `mkthread` in frappy.server (runs the thread function inline: an interface "thread" enters its
        interface, registers, and its serve_forever returns at once) and `get_class` for the two interface class paths
        (fake interface classes, each may fail to start with OSError).

Catalogues (all enumerated completely, nothing sampled)
  character classes: a (ASCII), e-acute (2 byte), euro sign (3 byte), U+1F600 (4 byte), '"', '\\', newline, U+0001
      (the last four need JSON escapes: 2, 2, 2 and 6 bytes on the wire for 1 byte of UTF-8)
  sub-check `pure`     : equipment ids {typical ASCII id, one short id per class} x descriptions c*n for every class c and
                         EVERY length n from 0 to 640 (this contains the window around the limit for every class and
                         also everything far beyond it) x interface lists
  sub-check `mix`      : descriptions c1*k + c2*m for every ordered pair of classes, every boundary position k >= 1 up to
                         w beyond the point where c1*k alone fills the datagram, and every m >= 1 in the window of +-w
                         around the m at which the message reaches 508 bytes (w = 4 quick / 8 thorough) x equipment ids x
                         interface lists
  sub-check `identity` : equipment ids c*n for every class and every n in +-(w+4) around the length at which the identity
                         alone reaches 508 bytes (and the short lengths 1..3) x 6 descriptions x interface lists
  sub-check `datagrams`: 6 identities (complete, truncated ASCII / multi-byte / escaped, identity too long, description of
                         control characters) x interface lists x start-up broadcast on/off x every datagram sequence of
                         length <= 2 (quick) / 3 (thorough) over the 34 datagram kinds of DATAGRAMS (3 requests spelled
                         with JSON escapes in key / value / every character - what counts is the decoded value -, a
                         request behind a BOM and one with a duplicate key (may be answered); 7 of them
                         longer than the 1024 byte receive buffer: 2 000 / 20 000 nested lists, 4 000 nested objects,
                         5 000 digit number, huge exponent, 65 507 bytes of ASCII / binary garbage); every sequence is
                         followed by one more plain discovery request (the liveness probe)
  sub-check `server`   : Server.run for every interface configuration of SERVER_CFGS x every subset of interfaces that
                         fail to start; the listener created by the server receives one discovery request
  sub-check `restart`  : Server.run through 1..2 (thorough: 3) iterations of its restart loop with the REAL TCPServer
                         (constructor with its bind-retry loop, server_bind / server_activate / server_close, context
                         manager) and the real Server._interfaceThread on a fake TCP socket layer (the name `socket`
                         inside socketserver and `time` inside frappy.protocol.interface.tcp are rebound for the
                         duration of one case; only the accept loop serve_forever / shutdown is replaced: it refuses a
                         socket that is not listening as the selector does, otherwise "accepts" until shut down).
                         Plan = interface configuration of the first run (SERVER_CFGS) and, for every later run, the same
                         list or one of ALT_CFGS (a restart_hook that reloads a changed configuration) x every subset of
                         interfaces whose port can never be bound in every run x VARIANTS (bind of the other tcp ports
                         succeeds after k = 0..4 refusals with EADDRINUSE; the unbindable ones get EADDRINUSE on every
                         attempt or EACCES) x both orders of the interface threads.  Listener and interface threads are
                         real threads under strict hand-off (ParkedThread): they run only while the exploring thread
                         waits for them and park in recvfrom / in the accept loop - so they stay blocked, as in the
                         running server, until closed / shut down.  While the node is up a discovery request is broadcast
                         (it reaches EVERY socket still bound to the discovery port), then the environment calls
                         dispatcher.restart() (= Server.restart; last run: Server.shutdown()), and after run() has
                         returned one more request is broadcast.  The fake UDP socket behaves as measured on a real
                         unconnected Linux UDP socket: shutdown() fails with ENOTCONN but wakes a blocked recvfrom,
                         which then returns (b'', None); the socket stays BOUND until close().  The fake network
                         delivers a broadcast to every bound socket and a unicast request (one per run, own sender
                         address) to exactly ONE of the sockets bound to the port - which one is a choice point: every
                         choice is executed (only one exists unless a socket of an earlier run is still bound).
                         Oracle: in run k only the listener created in run k sends; every port it names is one on which
                         the node accepts connections AT THAT MOMENT (a fake tcp socket bound + listening + not closed
                         whose server is inside its accept loop - a registered interface whose serve_forever already
                         failed is not listening); broadcast and unicast request are each answered once per such port;
                         no socket of an earlier run is still bound while the node is up, none after the end; after the
                         end nothing is sent at all.  Signatures separate the listener of the current run
                         (`C19:restart:{announce,answer}:...:{first-run,after-restart}`) from a listener of a previous
                         run that still answers (`C19:restart:listener-of-a-previous-run-still-answers:...`).
  interface lists: one tcp; tcp + ws; two tcp; port 1; port 65535; port 1 + 65535; four-digit port; ws only (no tcp)
  every `pure` / `mix` / `identity` case runs the real loop on [discovery request] and judges broadcast and answers.

Oracle (written from the statement and the SECoP discovery message format, independent of the implementation)
  M  every datagram sent: <= 508 bytes; strict UTF-8; strict JSON; ONE object; "SECoP" == "node"; "equipment_id" equal to
     the configured one; "firmware" a string naming the (constant) version; "description" a string that is a prefix of
     the configured description (strict UTF-8 + prefix of the code point sequence = cut on a character boundary);
     "port" an int that is the port of one of the tcp:// interfaces handed to the listener (for `server`: of the
     interfaces that really started).
  C  if the complete message (minimal compact JSON encoding, own length function `jlen`, five-digit port) fits in 508
     bytes the description must be complete.
  E  if the identity alone (empty description, five-digit port) fits, the responder must not be disabled: the discovery
     request must be answered.  If it does not fit even with the actual port nothing may be sent at all (anything sent
     would break the size bound; this is the only case in which silence is accepted).
  A  a datagram that is the JSON object {"SECoP": "discover"} (any JSON whitespace) is answered exactly once per tcp
     port, to the sender's address; a datagram that is not a JSON object with "SECoP" == "discover" is never answered;
     nothing is sent to anybody else.
  L  the loop survives: `run()` does not raise, consumes every scripted datagram and ends only through the shutdown
     path (OSError from recvfrom).

Oracle calibration (weaker readings taken where the statement leaves latitude)
  * "TCP port it really listens on" is read as "port of a tcp:// (SECoP over TCP) interface that was opened"; ports of
    ws:// interfaces must not be announced (a discovery client speaks plain SECoP over TCP to the port it is told).
  * how much of an over-long description survives is not prescribed: any prefix (even the empty one) is accepted.
  * between "fits with the actual port" and "fits with a five-digit port" both truncating and not truncating, both
    answering and staying silent are accepted.
  * number and destination of start-up announcements are not prescribed (only their form M); answers must go to the
    sender.
  * a discovery request with additional members, or one longer than the 1024 byte receive buffer, may be answered or
    not (kinds marked MAY); only exactly {"SECoP": "discover"} MUST be answered.
  * firmware: any string containing the version constant.
  * lone surrogates / non-string equipment ids are outside the catalogue.
"""
import functools
import itertools
import json
import errno
import logging
import os
import re
import threading

from vf import core, nodes    # nodes binds get_version in frappy.protocol.discovery to a constant

import frappy.protocol.discovery as discovery
import frappy.protocol.interface.tcp
import frappy.server

PROPERTY = 'C19'
LIMIT = 508
FIRMWARE = 'FRAPPY ' + nodes.VERSION

# ---------------------------------------------------------------------------------------------------------------
# fake datagram socket (the only seam: the name `socket` inside frappy.protocol.discovery)


class ScriptedSocket:
    script = ()          # class level default: a listener created by Server.run takes NEXT_SCRIPT

    def __init__(self, family=None, kind=None):
        self.args = (family, kind)
        self.script = list(NEXT_SCRIPT)
        self.sent = []           # (position in the script when sent, data, address)
        self.consumed = 0
        self.calls = 0
        self.bound = None
        self.opts = []
        self.closed = False
        CREATED.append(self)

    def setsockopt(self, *args):
        self.calls += 1
        self.opts.append(args)

    def bind(self, addr):
        self.calls += 1
        self.bound = addr

    def recvfrom(self, bufsize):
        self.calls += 1
        if self.closed or self.consumed >= len(self.script):
            raise OSError(9, 'Bad file descriptor')      # what a socket closed by shutdown() gives
        data, addr = self.script[self.consumed]
        self.consumed += 1
        return data[:bufsize], addr

    def sendto(self, data, addr):
        self.calls += 1
        self.sent.append((self.consumed, bytes(data), addr))
        return len(data)

    def shutdown(self, how):
        self.calls += 1
        raise OSError(errno.ENOTCONN, 'Transport endpoint is not connected')      # an unconnected UDP socket says so

    def close(self):
        self.closed = True


NEXT_SCRIPT = []
CREATED = []


class SocketShim:
    """the names frappy.protocol.discovery takes from the socket module"""
    AF_INET, SOCK_DGRAM, SOL_SOCKET, SO_REUSEADDR, SO_REUSEPORT, SO_BROADCAST, SHUT_RDWR = 2, 2, 1, 2, 15, 6, 2
    error = OSError
    timeout = TimeoutError
    socket = ScriptedSocket


discovery.socket = SocketShim

LOG = logging.getLogger('vf.c19.quiet')
LOG.propagate = False
LOG.addHandler(logging.NullHandler())
LOG.setLevel(logging.CRITICAL + 10)

# ---------------------------------------------------------------------------------------------------------------
# catalogues

CLASSES = {            # name -> (character, group)
    'a': ('a', 'ascii'),
    'u2': ('é', 'multibyte'),
    'u3': ('€', 'multibyte'),
    'u4': ('\U0001f600', 'multibyte'),
    'quote': ('"', 'escaped'),
    'backslash': ('\\', 'escaped'),
    'newline': ('\n', 'escaped'),
    'ctrl': ('\x01', 'escaped'),
}
CNAMES = list(CLASSES)

IFACES = {
    'tcp': ['tcp://10767'],
    'tcp+ws': ['tcp://10767', 'ws://8010'],
    'two-tcp': ['tcp://10767', 'tcp://10768'],
    'port1': ['tcp://1'],
    'port65535': ['tcp://65535'],
    'port1+65535': ['tcp://1', 'tcp://65535'],
    'four-digit': ['tcp://5000'],
    'ws-only': ['ws://8010'],
}

MUST, MAY, NEVER = 'must', 'may', 'never'
REQUEST = b'{"SECoP":"discover"}'
# kind -> (bytes, expectation, class used in signatures)
DATAGRAMS = {
    'discover': (REQUEST, MUST, 'request'),
    'discover-spaced': (b' {\n "SECoP" : "discover"\n}\r\n', MUST, 'request'),
    # the same JSON value spelled with escapes: what counts is the DECODED value
    'discover-escaped-value': (b'{"SECoP":"d\\u0069scover"}', MUST, 'request-with-json-escapes'),
    'discover-escaped-key': (b'{"\\u0053ECoP":"discover"}', MUST, 'request-with-json-escapes'),
    'discover-all-escaped': (('{"' + ''.join('\\u%04x' % ord(c) for c in 'SECoP') + '":"'
                              + ''.join('\\u%04X' % ord(c) for c in 'discover') + '"}').encode(), MUST, 'request-with-json-escapes'),
    'discover-with-bom': (b'\xef\xbb\xbf' + REQUEST, MAY, 'request-variant'),       # RFC 8259: a parser MAY ignore a BOM
    'discover-duplicate-key': (b'{"SECoP":"node","SECoP":"discover"}', MAY, 'request-variant'),
    'discover-extra-member': (b'{"SECoP":"discover","id":7}', MAY, 'request-variant'),
    'discover-oversize': (REQUEST + b' ' * 1100, MAY, 'request-variant'),
    'node-announcement': (b'{"SECoP":"node","port":10767,"equipment_id":"other","firmware":"x","description":"y"}',
                          NEVER, 'json-object-no-request'),
    'other-object': (b'{"foo":1}', NEVER, 'json-object-no-request'),
    'empty-object': (b'{}', NEVER, 'json-object-no-request'),
    'secop-number': (b'{"SECoP":5}', NEVER, 'json-object-no-request'),
    'secop-list': (b'{"SECoP":["discover"]}', NEVER, 'json-object-no-request'),
    'json-list': (b'["SECoP","discover"]', NEVER, 'json-non-object'),
    'json-empty-list': (b'[]', NEVER, 'json-non-object'),
    'json-number': (b'5', NEVER, 'json-non-object'),
    'json-string': (b'"SECoP discover"', NEVER, 'json-non-object'),
    'json-other-string': (b'"hello"', NEVER, 'json-non-object'),
    'json-null': (b'null', NEVER, 'json-non-object'),
    'json-true': (b'true', NEVER, 'json-non-object'),
    'invalid-utf8': (b'\xff\xfe' + REQUEST, NEVER, 'invalid-utf8'),
    'invalid-utf8-inside': (b'{"SECoP":"discover\xc3"}', NEVER, 'invalid-utf8'),
    'junk-1024-binary': (bytes(range(256)) * 4, NEVER, 'invalid-utf8'),
    'junk-1024-ascii': (b'x' * 1024, NEVER, 'not-json'),
    'truncated-json': (b'{"SECoP":"disc', NEVER, 'not-json'),
    'empty': (b'', NEVER, 'not-json'),
    # longer than the 1024 byte receive buffer of the code (the fake socket cuts to whatever buffer size the code asks
    # for, as a UDP socket does: a responder asking for more gets more)
    'oversize-nested-lists-2000': (b'[' * 2000, NEVER, 'oversize-nested-json'),
    'oversize-nested-lists-20000': (b'[' * 20000, NEVER, 'oversize-nested-json'),
    'oversize-nested-objects-4000': (b'{"a":' * 4000, NEVER, 'oversize-nested-json'),
    'oversize-number-5000-digits': (b'1' * 5000, NEVER, 'oversize-number'),
    'oversize-exponent': (b'1' + b'0' * 1500 + b'e' + b'9' * 1500, NEVER, 'oversize-number'),
    'oversize-garbage-65507-ascii': (b'SECoP discover ' * 4367 + b'xx', NEVER, 'oversize-garbage'),
    'oversize-garbage-65507-binary': (bytes(range(256)) * 255 + bytes(227), NEVER, 'oversize-garbage'),
}
assert len(DATAGRAMS['oversize-garbage-65507-ascii'][0]) == len(DATAGRAMS['oversize-garbage-65507-binary'][0]) == 65507
DNAMES = list(DATAGRAMS)

SERVER_CFGS = [      # (interface, secondary)
    ('tcp://10767', []),
    ('10767', []),                                 # the server adds the missing tcp://
    ('tcp://10767', ['ws://8010']),
    ('tcp://10767', ['tcp://10768']),
    ('tcp://1', ['tcp://65535']),
    ('tcp://10767', ['tcp://10768', 'ws://8010']),
    ('ws://8010', ['tcp://10767']),
]


def bounds(tier):
    if tier == 'quick':
        return dict(w=4, depth=2, maxlen=640, mix_eids=1, mix_ifaces=['tcp', 'tcp+ws', 'port1+65535', 'four-digit'],
                    restart_runs=2)
    return dict(w=8, depth=3, maxlen=700, mix_eids=len(EIDS), mix_ifaces=list(IFACES), restart_runs=3)


# ---------------------------------------------------------------------------------------------------------------
# reference: minimal length of the SECoP node message

_TWO = '"\\\b\f\n\r\t'
_SIX = ''.join(chr(o) for o in range(0x20) if chr(o) not in _TWO)


@functools.lru_cache(maxsize=64)
def jlen(text):
    """bytes of the shortest JSON string body for text: UTF-8, escapes only where JSON demands them (two bytes for
    quote, backslash, \\b \\f \\n \\r \\t; six for the other control characters)"""
    n = len(text.encode('utf-8'))
    for ch in _TWO:
        n += text.count(ch)
    for ch in _SIX:
        n += 5 * text.count(ch)
    return n


FRAME = len('{"SECoP":"node","port":,"equipment_id":"","firmware":"","description":""}')


def minlen(eid, desc, digits, firmware=FIRMWARE):
    return FRAME + digits + jlen(eid) + jlen(firmware) + jlen(desc)


_ESCAPED = re.compile('["\\\\\x00-\x1f]')
_NONASCII = re.compile('[^\x00-\x7f]')


@functools.lru_cache(maxsize=64)
def group(text):
    return 'escaped' if _ESCAPED.search(text) else 'multibyte' if _NONASCII.search(text) else 'ascii'


EIDS = ['ex.frappy.demo'] + ['id' + CLASSES[c][0] * 3 for c in CNAMES if c != 'a']


def tcp_ports(ifaces):
    return [int(i.split('://', 1)[1]) for i in ifaces if i.split('://', 1)[0] == 'tcp']


# ---------------------------------------------------------------------------------------------------------------
# judging one execution

def judge_message(data, eid, desc, ports):
    """-> (problem or None, parsed description or None)"""
    if len(data) > LIMIT:
        return 'longer-than-508-bytes', None
    try:
        text = data.decode('utf-8')
    except UnicodeDecodeError:
        return 'not-utf8', None
    try:
        obj = nodes.strict_loads(text)
    except ValueError:
        return 'not-one-json-value', None
    if not isinstance(obj, dict):
        return 'not-a-json-object', None
    if obj.get('SECoP') != 'node':
        return 'not-a-node-message', None
    if obj.get('equipment_id') != eid or not isinstance(obj.get('equipment_id'), str):
        return 'equipment-id-differs', None
    fw = obj.get('firmware')
    if not isinstance(fw, str) or nodes.VERSION not in fw:
        return 'firmware-missing', None
    d = obj.get('description')
    if not isinstance(d, str):
        return 'description-missing', None
    if not desc.startswith(d):
        return 'description-not-a-prefix-of-the-configured-one', d
    port = obj.get('port')
    if type(port) is not int or port not in ports:     # pylint: disable=unidiomatic-typecheck
        return 'port-is-not-an-opened-tcp-port', d
    return None, d


def addr_of(i):
    return ('192.0.2.%d' % (i + 1), 40000 + i)


def unicast_addr(i):
    return ('198.51.100.%d' % (i + 1), 41000 + i)


def judge_run(part, case, eid, desc, ports, sock, exc, names, sigtag):
    """compare what the fake socket saw with the oracle; returns the outcome label"""
    part.traces += 1
    digits = max((len(str(p)) for p in ports), default=5)
    must_enable = minlen(eid, '', 5) <= LIMIT
    cannot_send = minlen(eid, '', digits) > LIMIT
    must_complete = minlen(eid, desc, 5) <= LIMIT
    # signature class: what kind of identity (the equipment id's characters do not change the defect class)
    idclass = 'desc-' + group(desc) if must_enable else 'identity-too-long'
    what = Lazy(lambda: f'equipment_id={short(eid)} description={short(desc)} tcp ports={ports} datagrams={names}')
    nviol = sum(v[0] for v in part.violations.values())

    # L: the loop must not die
    if exc is not None:
        killer = names[sock.consumed - 1] if 0 < sock.consumed <= len(names) else None
        if killer is None:
            part.violation(f'C19:run:raises-outside-the-loop:{type(exc).__name__}', case, f'{what}: run() raised {exc!r}')
        else:
            part.violation(f'C19:run:loop-killed-by:{DATAGRAMS[killer][2]}:{type(exc).__name__}', case,
                           f'{what}: the receive loop died with {exc!r} on datagram #{sock.consumed} ({killer}: '
                           f'{DATAGRAMS[killer][0][:60]!r}); later discovery requests are never answered')
        outcome = 'loop-killed'
    else:
        outcome = 'alive'

    # M, C: every datagram sent
    truncated = False
    by_addr = {}
    for pos, data, addr in sock.sent:
        phase = 'announce' if pos == 0 else 'answer'
        problem, d = judge_message(data, eid, desc, ports)
        if problem:
            part.violation(f'C19:{phase}:{problem}:{idclass}', case,
                           f'{what}: {phase} datagram of {len(data)} bytes to {addr}: {problem}: {data[:300]!r}')
        elif d != desc:
            truncated = True
            if must_complete:
                part.violation(f'C19:{phase}:description-truncated-although-the-message-fits:{idclass}', case,
                               f'{what}: complete message needs {minlen(eid, desc, 5)} <= 508 bytes but the description '
                               f'was cut to {len(d)} of {len(desc)} characters')
        if pos > 0:
            by_addr.setdefault(addr, []).append((pos, data))

    # A: who is answered
    silent = not sock.sent
    for i, name in enumerate(names):
        if exc is not None and i >= sock.consumed - 1:
            break        # nothing can be said about datagrams the dead loop never handled (reported above)
        if exc is None and i >= sock.consumed:
            break        # reported below as not consumed
        _, expect, dclass = DATAGRAMS[name]
        answers = by_addr.pop(addr_of(i), [])
        if any(pos != i + 1 for pos, _ in answers):
            part.violation(f'C19:answer:sent-before-the-request-was-received:{dclass}', case, f'{what}: datagram #{i + 1}')
        got = []
        for _, data in answers:
            try:
                got.append(json.loads(data.decode('utf-8'))['port'])
            except Exception:      # malformed: reported by M above
                got.append(None)
        if expect == NEVER and answers:
            part.violation(f'C19:answer:non-request-answered:{dclass}', case,
                           f'{what}: datagram #{i + 1} ({name}: {DATAGRAMS[name][0][:60]!r}) is no discovery request but got '
                           f'{len(answers)} answer(s)')
        elif answers and sorted(map(repr, got)) != sorted(map(repr, ports)):
            part.violation(f'C19:answer:not-exactly-one-answer-per-tcp-port:{dclass}', case,
                           f'{what}: datagram #{i + 1} ({name}) answered with ports {got}, expected one each for {ports}')
        elif expect == MUST and ports and not answers:
            if cannot_send:
                pass                      # disabled because the identity does not fit: accepted
            elif must_enable:
                spelling = '' if dclass == 'request' else f':{dclass}'
                part.violation(f'C19:answer:request-not-answered-although-the-identity-fits{spelling}:{idclass}', case,
                               f'{what}: datagram #{i + 1} ({name}) was not answered; identity alone needs '
                               f'{minlen(eid, "", 5)} <= 508 bytes (complete message {minlen(eid, desc, 5)})')
            # else: latitude (fits only with a shorter port)
    for addr, answers in by_addr.items():
        part.violation('C19:answer:sent-to-an-address-that-sent-nothing', case, f'{what}: {len(answers)} datagram(s) to {addr}')

    # L: every datagram consumed (unless the responder is legitimately disabled)
    if exc is None and sock.consumed < len(names):
        if must_enable:
            kind = 'loop-ended-early' if sock.consumed else 'responder-disabled-although-the-identity-fits'
            part.violation(f'C19:run:{kind}:{idclass}', case,
                           f'{what}: run() returned after {sock.consumed} of {len(names)} datagrams although the identity alone '
                           f'needs only {minlen(eid, "", 5)} <= 508 bytes (complete message: {minlen(eid, desc, 5)})')
        outcome = 'disabled'
    elif exc is None and names and silent and cannot_send:
        outcome = 'disabled'
    if outcome == 'alive':
        outcome = 'truncated' if truncated else 'complete'
        if silent:
            outcome += '-silent'
    if nviol != sum(v[0] for v in part.violations.values()):
        outcome += '!'
    return outcome


class Lazy:
    """text built only when a violation is reported"""
    def __init__(self, fn):
        self.fn = fn

    def __format__(self, spec):
        return self.fn()

    __str__ = __format__


def short(text):
    if len(text) <= 24:
        return repr(text)
    runs = [(ch, len(list(g))) for ch, g in itertools.groupby(text)]
    if len(runs) <= 4:
        return '+'.join(f'{ch!r}*{n}' for ch, n in runs)
    return repr(text[:20]) + f'...({len(text)} chars)'


def run_listener(part, eid, desc, ifname, names, broadcast=True, sub='pure'):
    """one case: real constructor + real run() on the scripted socket"""
    global NEXT_SCRIPT          # pylint: disable=global-statement
    ifaces = IFACES[ifname]
    ports = tcp_ports(ifaces)
    case = {'kind': 'listener', 'eid': eid, 'desc': desc, 'ifaces': ifname, 'datagrams': list(names), 'broadcast': broadcast,
            'sub': sub}
    part.evaluations += 1
    part.states += 1
    NEXT_SCRIPT = [(DATAGRAMS[n][0], addr_of(i)) for i, n in enumerate(names)]
    del CREATED[:]
    try:
        listener = discovery.UDPListener(eid, desc, ifaces, LOG, startup_broadcast=broadcast)
    except Exception as e:
        part.transitions += 1
        part.violation(f'C19:init:raises:{type(e).__name__}', case,
                       f'UDPListener({short(eid)}, {short(desc)}, {ifaces}) raised {e!r}')
        part.outcomes[f'{sub}:init-raises'] += 1
        return
    finally:
        NEXT_SCRIPT = []
    sock = listener.sock
    if sock.bound is None or sock.bound[1] != 10767:
        raise core.Inconclusive(f'the listener did not bind the scripted socket to the discovery port: {sock.bound!r}')
    exc = None
    try:
        listener.run()
    except Exception as e:      # the thread would die here
        exc = e
    part.transitions += 2 + sock.calls
    outcome = judge_run(part, case, eid, desc, ports, sock, exc, list(names), sub)
    if minlen(eid, desc, 5) > LIMIT or any(DATAGRAMS[n][1] != MUST for n in names):
        part.nontrivial += 1
    part.outcomes[f'{sub}:{outcome}'] += 1
    if part.evaluations % 4999 == 1:
        part.sample({'sub': sub, 'equipment_id': short(eid), 'description': short(desc), 'interfaces': ifaces,
                     'datagrams': list(names), 'outcome': outcome,
                     'sent': [[len(d), list(a)] for _, d, a in sock.sent][:4]})


# ---------------------------------------------------------------------------------------------------------------
# case generators (shards are disjoint by construction)

def limit_len(eid, prefix, jl):
    """largest n such that prefix + c*n still fits with a five-digit port (c needs jl JSON bytes); may be negative"""
    return (LIMIT - minlen(eid, prefix, 5)) // jl


def gen_pure(shard, b):
    _, eid, cname = shard
    ch = CLASSES[cname][0]
    for n in range(0 if cname == 'a' else 1, b['maxlen'] + 1):
        yield eid, ch * n


def gen_mix(shard, b):
    _, eid, c1, c2, chunk = shard
    ch1, ch2 = CLASSES[c1][0], CLASSES[c2][0]
    j1, j2 = jlen(ch1), jlen(ch2)
    w = b['w']
    for k in range(1 + chunk, limit_len(eid, '', j1) + w + 1, MIX_CHUNKS):
        mid = limit_len(eid, ch1 * k, j2)
        for m in range(max(1, mid - w), max(1, mid + w) + 1):
            yield eid, ch1 * k + ch2 * m


MIX_CHUNKS = 4      # the boundary positions k of one (equipment id, class pair) are dealt to this many shards

IDENTITY_DESCS = ['', 'abc', 'é', '\x01', 'x' * 100, '\U0001f600' * 30]


def gen_identity(shard, b):
    _, cname = shard
    ch = CLASSES[cname][0]
    mid = limit_len('', '', jlen(ch))
    w = b['w'] + 4
    for n in sorted(set(range(1, 4)) | set(range(mid - w - 100 // jlen(ch), mid + w + 1))):
        for desc in IDENTITY_DESCS:
            yield ch * n, desc


DATAGRAM_IDENTITIES = [
    ('ex.frappy.demo', 'a short description'),
    ('ex.frappy.demo', 'a' * 600),
    ('ex.frappy.demo', '€' * 200),
    ('ex.frappy.demo', 'say "hi"\n' * 60),
    ('x' * 520, 'identity too long'),
    ('ex.frappy.demo', '\x01' * 90),
]


def shard_fn(shard):
    part = core.Part()
    b = bounds(core.TIER)
    sub = shard[0]
    if sub in ('pure', 'mix', 'identity'):
        gen = {'pure': gen_pure, 'mix': gen_mix, 'identity': gen_identity}[sub]
        iflists = b['mix_ifaces'] if sub == 'mix' else list(IFACES)
        for eid, desc in gen(shard, b):
            for ifname in iflists:
                run_listener(part, eid, desc, ifname, ('discover',), True, sub)
    elif sub == 'datagrams':
        _, ident, ifname, first = shard
        eid, desc = DATAGRAM_IDENTITIES[ident]
        seqs = [()] if first is None else [(first,) + rest for d in range(b['depth']) for rest in itertools.product(DNAMES, repeat=d)]
        for seq in seqs:
            for broadcast in (True, False):
                run_listener(part, eid, desc, ifname, seq + ('discover',), broadcast, sub)
    elif sub == 'server':
        _, idx = shard
        interface, secondary = SERVER_CFGS[idx]
        uris = [interface] + secondary
        for r in range(len(uris) + 1):
            for fail in itertools.combinations(range(len(uris)), r):
                for reverse in (False, True):
                    run_server(part, interface, secondary, list(fail), reverse)
    elif sub == 'restart':
        _, idx, vi = shard
        for plan in restart_scenarios(idx, b['restart_runs']):
            for reverse in (False, True):
                # choice point: which of the sockets bound to the discovery port gets the unicast requests
                nbound = run_restart(part, plan, reverse, VARIANTS[vi], 0)
                for choice in range(1, nbound or 0):
                    run_restart(part, plan, reverse, VARIANTS[vi], choice)
    else:
        raise core.Inconclusive(f'unknown shard {shard!r}')
    return part


# ---------------------------------------------------------------------------------------------------------------
# Server.run with fake interfaces

class FakeInterface:
    """what Server._interfaceThread needs from an interface class"""
    FAIL = set()
    STARTED = []

    def __init__(self, scheme, logger, options, srv):
        uri = options.pop('uri')
        if uri in self.FAIL:
            raise OSError(98, f'Address already in use: {uri}')
        self.uri = uri
        self.STARTED.append(uri)

    def __enter__(self):
        return self

    def __exit__(self, *args):
        return False

    def serve_forever(self):
        return          # the interface is shut down at once: the thread function runs to its end

    def shutdown(self):
        pass


class DeferredThreads:
    """deterministic stand-in for threads inside frappy.server: `mkthread` only queues the thread function (Server.run
    creates the interface threads while holding a lock they need), the queued functions run to completion, in creation
    order (or reversed: second schedule), whenever the main thread would block: MultiEvent.wait and Thread.join"""
    def __init__(self, reverse):
        self.pending = []
        self.reverse = reverse
        self.ran = 0

    def mkthread(self, func, *args, **kwds):
        self.pending.append((func, args, kwds))
        return self

    def run_pending(self):
        while self.pending:
            func, args, kwds = self.pending.pop(-1 if self.reverse else 0)
            self.ran += 1
            func(*args, **kwds)

    def join(self, timeout=None):
        self.run_pending()


THREADS = DeferredThreads(False)


class CoopMultiEvent(frappy.server.MultiEvent):
    def wait(self, timeout=None):
        THREADS.run_pending()
        if self.events:
            raise core.Inconclusive(f'MultiEvent.wait would block: waiting for {self.waiting_for()}')
        return super().wait(timeout)


_real_get_class = frappy.server.get_class


def fake_get_class(spec):
    if spec in frappy.server.Server.INTERFACES.values():
        return FakeInterface
    return _real_get_class(spec)


def run_server(part, interface, secondary, fail, reverse=False):
    global NEXT_SCRIPT, THREADS          # pylint: disable=global-statement
    import io
    import sys
    uris = [interface] + list(secondary)
    norm = [u if '://' in u else f'tcp://{u}' for u in uris]
    failing = {norm[i] for i in fail}
    opened = [u for u in norm if u not in failing]
    ports = tcp_ports(opened)
    case = {'kind': 'server', 'interface': interface, 'secondary': list(secondary), 'fail': list(fail), 'reverse': reverse}
    part.evaluations += 1
    part.states += 1
    if fail:
        part.nontrivial += 1
    node_cfg = {'interface': interface, 'equipment_id': 'ex.frappy.server', 'description': 'server started listener'}
    if secondary:
        node_cfg['secondary'] = list(secondary)
    node = nodes.Node({}, node_cfg=node_cfg, start=True)
    saved = frappy.server.mkthread, frappy.server.get_class, frappy.server.MultiEvent, sys.stdout
    THREADS = DeferredThreads(reverse)
    frappy.server.mkthread, frappy.server.get_class, frappy.server.MultiEvent = THREADS.mkthread, fake_get_class, CoopMultiEvent
    FakeInterface.FAIL = failing
    FakeInterface.STARTED = []
    NEXT_SCRIPT = [(REQUEST, addr_of(0))]
    del CREATED[:]
    sys.stdout = io.StringIO()
    exc = None
    try:
        node._restart = True
        node.run()                      # the real Server.run
        THREADS.run_pending()
    except BaseException as e:          # noqa
        exc = e
    finally:
        frappy.server.mkthread, frappy.server.get_class, frappy.server.MultiEvent, sys.stdout = saved
        NEXT_SCRIPT = []
        node.close()
    what = (f'Server.run interface={interface!r} secondary={secondary!r} failing to start={sorted(failing)} '
            f'threads run {"last" if reverse else "first"} created first')
    part.transitions += 1 + len(uris)
    if exc is not None:
        part.violation(f'C19:server:run-raises:{type(exc).__name__}', case, f'{what}: {exc!r}')
        part.outcomes['server:raises'] += 1
        return
    if sorted(FakeInterface.STARTED) != sorted(opened):
        raise core.Inconclusive(f'{what}: fake interfaces started {FakeInterface.STARTED}, expected {opened}')
    if not opened:
        if any(s.sent for s in CREATED):
            part.violation('C19:server:datagram-sent-without-any-interface', case, what)
        part.traces += 1
        part.outcomes['server:no-interface-no-listener'] += 1
        return
    if len(CREATED) != 1:
        part.violation('C19:server:listener-not-started', case, f'{what}: {len(CREATED)} datagram sockets created')
        part.outcomes['server:no-listener'] += 1
        return
    sock = CREATED[0]
    part.transitions += sock.calls
    outcome = judge_run(part, case, 'ex.frappy.server', 'server started listener', ports, sock, None, ['discover'], 'server')
    if ports and not any(pos == 0 for pos, _, _ in sock.sent):
        outcome += '-no-announcement'
    part.outcomes[f'server:{len(opened)}-of-{len(uris)}-started:{outcome}'] += 1
    part.sample({'sub': 'server', 'interfaces': norm, 'failed': sorted(failing),
                 'sent': [[len(d), json.loads(d).get('port'), list(a)] for _, d, a in sock.sent]})


# ---------------------------------------------------------------------------------------------------------------
# Server.run over several iterations (Server.restart): which listener says what in which run, against the ports on
# which the node really accepts connections at that moment (real TCPServer constructor on a fake TCP socket layer)

CURRENT = {}        # thread ident -> ParkedThread


class ParkedThread:
    """a thread of Server.run (listener, interface) as a real thread under strict hand-off: it only runs while the
    exploring thread waits for it, and it runs until it has to wait (recvfrom with nothing to receive, serve_forever
    until shut down) - then it parks - or ends.  So a listener stays blocked in recvfrom and an interface stays in its
    accept loop, as in the running server, until somebody closes / shuts it down."""
    TIMEOUT = 20

    def __init__(self, func, args=(), kwds=None):
        self.func, self.args, self.kwds = func, args, kwds or {}
        self.go = threading.Semaphore(0)
        self.back = threading.Semaphore(0)
        self.done = False
        self.exc = None
        self.thread = threading.Thread(target=self._main, daemon=True)
        self.thread.start()

    def _main(self):
        CURRENT[threading.get_ident()] = self
        self.go.acquire()
        try:
            self.func(*self.args, **self.kwds)
        except BaseException as e:      # noqa  the thread dies; recorded for the oracle
            self.exc = e
        self.done = True
        CURRENT.pop(threading.get_ident(), None)
        self.back.release()

    def resume(self):
        """exploring thread: let the thread run until it parks or ends"""
        if self.done:
            return
        self.go.release()
        if not self.back.acquire(timeout=self.TIMEOUT):
            raise core.Inconclusive('a thread of Server.run did not come back')

    def park(self):
        """the thread itself: it has to wait"""
        self.back.release()
        if not self.go.acquire(timeout=10 * self.TIMEOUT):
            raise OSError(9, 'harness gone')

    def join(self, timeout=None):
        """Server.run waits for an interface thread = the node is up: the environment acts"""
        if WORLD is not None:
            WORLD.main_waits()
        if not self.done:
            raise core.Inconclusive('Server.run would wait for ever for an interface thread')


def current_parked():
    me = CURRENT.get(threading.get_ident())
    if me is None:
        raise core.Inconclusive('blocking call outside a thread of Server.run')
    return me


class LiveSocket(ScriptedSocket):
    """datagram socket of a listener inside a running server: blocks (parks the thread) while its queue is empty"""
    def __init__(self, family=None, kind=None):
        super().__init__(family, kind)
        self.queue = []
        self.thread = None
        self.shut = False
        self.empty_returns = 0
        self.world = WORLD
        self.index = len(WORLD.sockets)
        self.run = WORLD.run
        WORLD.sockets.append(self)

    def recvfrom(self, bufsize):
        self.calls += 1
        while True:
            if self.closed:
                raise OSError(9, 'Bad file descriptor')
            if self.shut:
                # measured on a real Linux UDP socket: after shutdown() every recvfrom returns (b'', None) at once
                self.empty_returns += 1
                if self.empty_returns > 200:
                    raise core.Inconclusive('the listener spins on a socket that was shut down')
                return b'', None
            if self.queue:
                self.consumed += 1
                data, addr = self.queue.pop(0)
                return data[:bufsize], addr
            if self.thread is None or threading.current_thread() is not self.thread.thread:
                raise core.Inconclusive('recvfrom on a listener socket outside its listener thread')
            self.thread.park()

    def sendto(self, data, addr):
        self.calls += 1
        w = self.world
        w.sends.append((w.run, w.down, self.index, self.consumed, bytes(data), addr, tuple(w.accepting_tcp_ports())))
        return len(data)

    def is_bound(self):
        """still in the set of sockets the kernel delivers datagrams for the discovery port to"""
        return self.bound is not None and not self.closed

    def wake(self):
        if self.thread is not None and not self.thread.done and threading.current_thread() is not self.thread.thread:
            self.thread.resume()

    def shutdown(self, how):
        """as measured on a real unconnected UDP socket (Linux): the call fails with ENOTCONN, but a thread blocked in
        recvfrom wakes up and gets (b'', None); the socket stays bound until it is closed"""
        self.calls += 1
        self.shut = True
        self.wake()
        raise OSError(errno.ENOTCONN, 'Transport endpoint is not connected')

    def close(self):
        self.closed = True
        self.wake()        # a blocked recvfrom fails, the loop returns


class FakeTcpSocket:
    """stream socket of the fake TCP layer under socketserver: bind follows the plan of the World (EADDRINUSE for the
    first k attempts on a port, another OSError, success); listening = bound + listen() + not closed"""
    def __init__(self, family=-1, kind=-1, proto=-1, fileno=None):
        self.port = None
        self.listening = False
        self.closed = False
        WORLD.tcp_sockets.append(self)

    def setsockopt(self, *args):
        pass

    def bind(self, addr):
        port = addr[1]
        WORLD.bind_attempts += 1
        errs = WORLD.bind_errors.setdefault((WORLD.run, port), list(WORLD.bind_plan(port)))
        if errs:
            code = errs.pop(0)
            raise OSError(code, os.strerror(code))
        self.port = port

    def getsockname(self):
        return ('0.0.0.0', self.port)

    def listen(self, backlog=0):
        if self.closed or self.port is None:
            raise OSError(errno.EBADF, 'Bad file descriptor')
        self.listening = True

    def fileno(self):
        return -1 if self.closed else 1000 + WORLD.tcp_sockets.index(self)

    def shutdown(self, how):
        pass

    def close(self):
        self.closed = True
        self.listening = False


class AcceptLoop:
    """stands in for the accept loop of an interface (socketserver's serve_forever / shutdown need real descriptors):
    serve_forever refuses a socket that is not listening exactly as the selector does, otherwise the interface accepts
    connections (parked) until shutdown()"""
    _stop = False
    _serving = None

    def harness_listening(self):
        raise NotImplementedError

    def serve_forever(self, poll_interval=0.5):
        me = current_parked()
        if not self.harness_listening():
            raise ValueError('Invalid file descriptor: -1')      # selector.register(closed socket)
        self._serving = me
        WORLD.accepting.append(self)
        try:
            while not self._stop:
                me.park()
        finally:
            WORLD.accepting.remove(self)
            self._serving = None

    def shutdown(self):
        self._stop = True
        t = self._serving
        if t is not None and not t.done and threading.current_thread() is not t.thread:
            t.resume()


class HarnessTCPServer(AcceptLoop, frappy.protocol.interface.tcp.TCPServer):
    """the real TCPServer (constructor with its bind retries, server_bind / server_activate / server_close, context
    manager) on the fake TCP socket layer; only the accept loop is replaced"""
    def harness_listening(self):
        return self.socket.listening and not self.socket.closed

    def harness_port(self):
        return self.socket.port


class HarnessOtherInterface(AcceptLoop):
    """any non-tcp interface (ws): fake, may fail to start"""
    def __init__(self, scheme, logger, options, srv):
        self.uri = options.pop('uri')
        if self.uri in WORLD.failing_other():
            raise OSError(errno.EADDRINUSE, f'Address already in use: {self.uri}')
        self.open = True

    def __enter__(self):
        return self

    def __exit__(self, *args):
        self.open = False
        return False

    def harness_listening(self):
        return self.open


class SleepShim:
    """the `time` name inside frappy.protocol.interface.tcp: sleeping takes no real time"""
    def __init__(self):
        self.slept = 0.0

    def sleep(self, seconds):
        self.slept += seconds

    def __getattr__(self, name):
        import time as _time
        return getattr(_time, name)


class World:
    """environment of one Server.run execution: the runs planned, the TCP layer, everything sent"""
    def __init__(self, node, runs, variant, reverse, choice=0):
        self.node, self.runs, self.variant = node, runs, variant
        self.run = 0                # index of the current iteration of Server.run
        self.down = False           # the node was shut down / run() ended: it listens on nothing
        self.sockets = []           # datagram sockets of listeners
        self.tcp_sockets = []
        self.accepting = []         # interfaces inside their accept loop
        self.sends = []             # (run, down, socket index, datagrams consumed, data, address, tcp ports accepting)
        self.up_ports = {}          # run -> tcp ports accepting when the request of that run was broadcast
        self.unstarted = []
        self.threads = []
        self.reverse = reverse
        self.armed = False
        self.bind_errors = {}
        self.bind_attempts = 0
        self.choice = choice        # which of the bound sockets gets a unicast datagram
        self.max_bound = 0
        self.stale_bound = {}       # run -> runs of the other sockets still bound when the node was up

    # --- the plan
    def bind_plan(self, port):
        run = self.runs[self.run]
        uri = f'tcp://{port}'
        if uri in failing_uris(run):
            return [errno.EADDRINUSE] * 8 if self.variant['failkind'] == 'busy' else [errno.EACCES]
        return [errno.EADDRINUSE] * self.variant['retries']

    def failing_other(self):
        return failing_uris(self.runs[self.run])

    def accepting_tcp_ports(self):
        return sorted(i.harness_port() for i in self.accepting if isinstance(i, HarnessTCPServer) and i.harness_listening())

    # --- stand-ins for threads in frappy.server
    def mkthread(self, func, *args, **kwds):
        thread = ParkedThread(func, args, kwds)
        self.threads.append(thread)
        owner = getattr(func, '__self__', None)
        if isinstance(owner, discovery.UDPListener):
            owner.sock.thread = thread
            thread.resume()         # start-up broadcast, then parked in recvfrom
            self.armed = True       # this iteration of Server.run has its listener: the next join means "node is up"
        else:
            self.unstarted.append(thread)      # Server.run still holds the lock the thread needs: started at wait()
        return thread

    def start_threads(self):
        while self.unstarted:
            self.unstarted.pop(-1 if self.reverse else 0).resume()      # runs until it serves (parks) or fails

    def main_waits(self):
        self.start_threads()
        if self.armed and not self.down:
            self.armed = False
            self.node_is_up()

    def bound_sockets(self):
        return [s for s in self.sockets if s.is_bound()]

    def hand(self, sock, data, addr):
        sock.queue.append((data, addr))
        if not sock.shut:
            sock.wake()

    def broadcast(self, data, addr):
        """a broadcast datagram reaches EVERY socket bound to the discovery port (SO_REUSEPORT)"""
        for sock in self.bound_sockets():
            self.hand(sock, data, addr)

    def unicast(self, data, addr):
        """a unicast datagram reaches exactly ONE of the sockets bound to the port - the kernel picks it by a hash of the
        sender: which one is a choice point of the exploration (self.choice; the caller runs every choice)"""
        bound = self.bound_sockets()
        self.max_bound = max(self.max_bound, len(bound))
        if bound:
            self.hand(bound[self.choice % len(bound)], data, addr)

    def node_is_up(self):
        k = self.run
        self.up_ports[k] = self.accepting_tcp_ports()
        self.stale_bound[k] = [s.run for s in self.bound_sockets() if s.run != k]
        self.broadcast(REQUEST, addr_of(k))
        self.unicast(REQUEST, unicast_addr(k))
        if k + 1 < len(self.runs):
            nxt = self.runs[k + 1]

            def hook():
                self.node.node_cfg['interface'] = nxt['interface']
                self.node.node_cfg.pop('secondary', None)
                if nxt['secondary']:
                    self.node.node_cfg['secondary'] = list(nxt['secondary'])
            self.node.restart_hook = hook       # a subclass may reload its configuration here
            self.node.dispatcher.restart()      # what a `restart` request of the router does: Server.restart
            self.run = k + 1                    # the interfaces of run k are shut down now
        else:
            self.node.shutdown()
            self.down = True

    def finish(self):
        """after run() returned: one more request, then end whatever the code under test left running"""
        self.down = True
        leaked = self.bound_sockets()
        self.broadcast(REQUEST, addr_of(len(self.runs)))
        self.cleanup()
        return leaked

    def cleanup(self):
        leaked = [s for s in self.sockets if not s.closed]
        for sock in leaked:
            sock.close()
        for iface in list(self.accepting):
            iface.shutdown()
        return leaked


WORLD = None


def world_get_class(spec):
    if spec == frappy.server.Server.INTERFACES['tcp']:
        return HarnessTCPServer
    if spec in frappy.server.Server.INTERFACES.values():
        return HarnessOtherInterface
    return _real_get_class(spec)


class WorldMultiEvent(frappy.server.MultiEvent):
    def wait(self, timeout=None):
        if WORLD is not None:
            WORLD.start_threads()
        if self.events:
            raise core.Inconclusive(f'MultiEvent.wait would block: waiting for {self.waiting_for()}')
        return super().wait(timeout)


def norm_uris(run):
    return [u if '://' in u else f'tcp://{u}' for u in [run['interface']] + list(run['secondary'])]


def failing_uris(run):
    uris = norm_uris(run)
    return {uris[i] for i in run['fail']}


RESTART_EID, RESTART_DESC = 'ex.frappy.server', 'server started listener'
VARIANTS = [        # EADDRINUSE answers to bind before it succeeds (interfaces that start) / how the others fail
    {'retries': 0, 'failkind': 'busy'}, {'retries': 1, 'failkind': 'busy'}, {'retries': 2, 'failkind': 'eacces'},
    {'retries': 3, 'failkind': 'busy'}, {'retries': 4, 'failkind': 'eacces'},
]


def run_restart(part, runs, reverse=False, variant=None, choice=0):
    """the real Server.run through len(runs) iterations: in run k bind succeeds for the tcp interfaces of runs[k] after
    variant['retries'] refusals with EADDRINUSE, the interfaces listed in 'fail' never get their port (EADDRINUSE on every
    attempt / EACCES); a discovery request is broadcast while the node is up, then Server.restart() (last run:
    Server.shutdown()), a last request after the end.  Judged: who sent what in which run against the tcp ports on which
    the node accepts connections at that moment."""
    global WORLD          # pylint: disable=global-statement
    import io
    import socket as realsocket
    import socketserver
    import sys
    import types
    variant = variant or VARIANTS[0]
    case = {'kind': 'restart', 'runs': runs, 'reverse': reverse, 'variant': variant, 'choice': choice}
    part.evaluations += 1
    part.states += 1
    if len(runs) > 1 or variant['retries'] or any(r['fail'] for r in runs):
        part.nontrivial += 1
    first = runs[0]
    node_cfg = {'interface': first['interface'], 'equipment_id': RESTART_EID, 'description': RESTART_DESC}
    if first['secondary']:
        node_cfg['secondary'] = list(first['secondary'])
    node = nodes.Node({}, node_cfg=node_cfg, start=True)
    world = WORLD = World(node, runs, variant, reverse, choice)
    tcpmod = frappy.protocol.interface.tcp
    saved = (frappy.server.mkthread, frappy.server.get_class, frappy.server.MultiEvent, sys.stdout, SocketShim.socket,
             socketserver.socket, tcpmod.time)
    frappy.server.mkthread, frappy.server.get_class, frappy.server.MultiEvent = world.mkthread, world_get_class, WorldMultiEvent
    SocketShim.socket = LiveSocket
    shim = types.SimpleNamespace(**{k: getattr(realsocket, k) for k in dir(realsocket) if not k.startswith('__')})
    shim.socket = FakeTcpSocket
    socketserver.socket = shim
    sleeper = tcpmod.time = SleepShim()
    sys.stdout = io.StringIO()
    exc = None
    leaked = []
    try:
        try:
            node._restart = True
            node.run()                      # the real Server.run
        except core.Inconclusive:
            raise
        except BaseException as e:          # noqa
            exc = e
        leaked = world.finish()
    finally:
        world.down = True
        world.cleanup()
        (frappy.server.mkthread, frappy.server.get_class, frappy.server.MultiEvent, sys.stdout, SocketShim.socket,
         socketserver.socket, tcpmod.time) = saved
        WORLD = None
        node.close()
    what = Lazy(lambda: 'Server.run: ' + '; then restart: '.join(
        f'run {k + 1} interfaces {norm_uris(r)}' + (f' of which {sorted(failing_uris(r))} cannot be bound '
                                                   f'({"EADDRINUSE on every attempt" if variant["failkind"] == "busy" else "EACCES"})'
                                                   if r['fail'] else '')
        for k, r in enumerate(runs)) + f'; bind of the others succeeds after {variant["retries"]} EADDRINUSE '
        f'(interface threads run {"last" if reverse else "first"} created first)')
    part.transitions += (1 + sum(s.calls for s in world.sockets) + world.bind_attempts + len(world.threads))
    part.traces += 1
    part.extra['restart_bind_attempts'] += world.bind_attempts
    if exc is not None:
        part.violation(f'C19:restart:run-raises:{type(exc).__name__}', case, f'{what}: {exc!r}')
        part.outcomes['restart:raises'] += 1
        return world.max_bound
    reached = world.run + 1
    nbad = sum(v[0] for v in part.violations.values())
    when = lambda k: 'first-run' if k == 0 else 'after-restart'      # noqa
    # the plan must have been executed: an interface that can be bound serves, when the node was up
    for k in world.up_ports:
        planned = tcp_ports([u for u in norm_uris(runs[k]) if u not in failing_uris(runs[k])])
        if not set(world.up_ports[k]) <= set(planned):
            raise core.Inconclusive(f'{what}: run {k + 1} accepts on {world.up_ports[k]}, planned {planned}')
        if sorted(world.up_ports[k]) != sorted(planned):
            part.violation(f'C19:restart:interface-not-serving-although-its-port-could-be-bound:{when(k)}', case,
                           f'{what}: run {k + 1} accepts on {world.up_ports[k]}, ports that can be bound: {planned}')
    # every listener thread must survive its datagrams
    for sock in world.sockets:
        if sock.thread is not None and sock.thread.exc is not None:
            part.violation(f'C19:restart:listener-thread-died:{type(sock.thread.exc).__name__}', case,
                           f'{what}: listener of run {sock.run + 1}: {sock.thread.exc!r}')
    # one listener per run in which the node was up
    for k in range(reached):
        n = sum(1 for s in world.sockets if s.run == k)
        if world.up_ports.get(k) and n != 1:
            part.violation(f'C19:restart:{n}-listeners-started:{when(k)}', case, f'{what}: run {k + 1}')
    # every datagram: sent by the listener of THIS run, naming a tcp port on which the node accepts connections NOW
    answers = {}
    for run, down, idx, pos, data, addr, ports in world.sends:
        sock = world.sockets[idx]
        ports = [] if down else list(ports)
        phase = 'announce' if pos == 0 else 'answer'
        problem, _ = judge_message(data, RESTART_EID, RESTART_DESC, ports)
        try:
            port = json.loads(data.decode('utf-8')).get('port')
        except Exception:      # noqa
            port = None
        if down:
            part.violation('C19:restart:listener-still-answers-after-the-node-stopped', case,
                           f'{what}: after the end of Server.run the listener created in run {sock.run + 1} sent {data[:200]!r} to '
                           f'{addr}; the node listens on no port any more')
        elif sock.run != run:
            kind = 'port-nobody-listens-on' if problem else 'duplicate-of-the-current-answer'
            part.violation(f'C19:restart:listener-of-a-previous-run-still-answers:{kind}', case,
                           f'{what}: in run {run + 1} (tcp ports {ports}) the listener created in run {sock.run + 1} sent port '
                           f'{port!r} to {addr}')
        else:
            if problem:
                part.violation(f'C19:restart:{phase}:{problem}:{when(run)}', case,
                               f'{what}: in run {run + 1} the node accepts connections on tcp ports {ports} but its listener sent '
                               f'a {phase} datagram with port {port!r}: {data[:200]!r}')
            if phase == 'answer':
                answers.setdefault(run, []).append((addr, port))
    for k in world.up_ports:
        ports = world.up_ports[k]
        for how, sender in (('broadcast', addr_of(k)), ('unicast', unicast_addr(k))):
            got = [port for addr, port in answers.get(k, []) if addr == sender]
            if sorted(map(repr, got)) != sorted(map(repr, ports)):
                kind = 'request-lost' if ports and not got else 'not-exactly-one-answer-per-tcp-port'
                part.violation(f'C19:restart:answer:{how}-{kind}:{when(k)}', case,
                               f'{what}: the {how} request in run {k + 1} was answered by the current listener with ports {got}, '
                               f'the node accepts connections on {ports}'
                               + (f' (the kernel handed it to socket #{choice % max(1, world.max_bound) + 1} of the '
                                  f'{world.max_bound} bound to the discovery port)' if how == 'unicast' else ''))
        if any(addr not in (addr_of(k), unicast_addr(k)) for addr, _ in answers.get(k, [])):
            part.violation(f'C19:restart:answer:sent-to-an-address-that-sent-nothing:{when(k)}', case, f'{what}: run {k + 1}')
        if world.stale_bound.get(k):
            part.violation('C19:restart:socket-of-a-previous-run-still-bound-to-the-discovery-port', case,
                           f'{what}: while run {k + 1} is up, the listener socket(s) created in run(s) '
                           f'{[r + 1 for r in world.stale_bound[k]]} are still bound (SO_REUSEPORT): the kernel hands them a share '
                           f'of the unicast requests, which nobody reads')
    if leaked:
        part.violation('C19:restart:listener-socket-still-bound-after-the-node-stopped', case,
                       f'{what}: after Server.run returned {len(leaked)} listener socket(s) (created in run(s) '
                       f'{[s.run + 1 for s in leaked]}) are still bound to the discovery port')
    bad = nbad != sum(v[0] for v in part.violations.values())
    label = (f'{len(runs)}-runs-planned:{reached}-reached:retries-{variant["retries"]}:'
             + ('VIOLATION' if bad else 'consistent'))
    if leaked:
        label += ':listener-sockets-left-bound'
    part.extra['restart_listener_sockets_left_bound'] += len(leaked)
    part.extra['restart_virtual_sleep_tenths_of_s'] += int(round(sleeper.slept * 10))
    part.outcomes['restart:' + label] += 1
    if part.evaluations % 97 == 1:
        part.sample({'sub': 'restart', 'runs': [{'interfaces': norm_uris(r), 'cannot be bound': sorted(failing_uris(r))} for r in runs],
                     'variant': variant,
                     'sent': [[run + 1, 'down' if down else 'up', f'listener-of-run-{world.sockets[idx].run + 1}', len(d), list(p)]
                              for run, down, idx, pos, d, a, p in world.sends][:8], 'result': label})
    return world.max_bound


ALT_CFGS = [('tcp://10767', []), ('tcp://10769', ['tcp://10768'])]      # what a restart may change the interfaces to


def fail_subsets(cfg):
    n = 1 + len(cfg[1])
    return [list(c) for r in range(n + 1) for c in itertools.combinations(range(n), r)]


def restart_scenarios(first_idx, nruns):
    """all plans starting with SERVER_CFGS[first_idx]: every later run keeps the interface list or changes it to one of
    ALT_CFGS; every subset of interfaces failing to start in every run (a run in which all fail ends the server)"""
    def rec(prefix, cfg):
        for fail in fail_subsets(cfg):
            run = {'interface': cfg[0], 'secondary': list(cfg[1]), 'fail': fail}
            plan = prefix + [run]
            yield plan
            if len(plan) < nruns and len(fail) < 1 + len(cfg[1]):
                seen = []
                for nxt in [cfg] + ALT_CFGS:
                    if nxt not in seen:
                        seen.append(nxt)
                        yield from rec(plan, nxt)
    yield from rec([], SERVER_CFGS[first_idx])


# ---------------------------------------------------------------------------------------------------------------

def run(ctx):
    b = bounds(ctx.tier)
    only = getattr(ctx, 'only', None) or set()

    def want(name):
        return not only or name in only

    if want('pure'):
        ctx.pmap(shard_fn, [('pure', eid, c) for eid in EIDS for c in CNAMES], name='pure')
    if want('mix'):
        ctx.pmap(shard_fn, [('mix', eid, c1, c2, chunk) for eid in EIDS[:b['mix_eids']] for c1 in CNAMES for c2 in CNAMES if c1 != c2
                            for chunk in range(MIX_CHUNKS)],
                 name='mix')
    if want('identity'):
        ctx.pmap(shard_fn, [('identity', c) for c in CNAMES], name='identity')
    if want('datagrams'):
        ctx.pmap(shard_fn, [('datagrams', i, ifname, first) for i in range(len(DATAGRAM_IDENTITIES)) for ifname in IFACES
                            for first in [None] + DNAMES], name='datagrams')
    if want('server'):
        ctx.pmap(shard_fn, [('server', i) for i in range(len(SERVER_CFGS))], name='server')
    if want('restart'):
        ctx.pmap(shard_fn, [('restart', i, v) for i in range(len(SERVER_CFGS)) for v in range(len(VARIANTS))], name='restart')
    ctx.rule = (
        'enumeration of the real UDPListener (constructor + run() on a scripted datagram socket): '
        f'pure = {len(EIDS)} equipment ids x 8 character classes x every description length 0..{b["maxlen"]} x 8 interface lists; '
        f'mix = {b["mix_eids"]} equipment ids x 56 ordered class pairs x every boundary position x every second-part length within '
        f'+-{b["w"]} of the 508 byte limit x {len(b["mix_ifaces"])} interface lists; identity = 8 classes x every equipment id length around the point '
        'where the identity alone reaches 508 bytes x 6 descriptions x 8 interface lists; datagrams = 6 identities x 8 interface '
        f'lists x broadcast on/off x every sequence of <= {b["depth"]} datagrams over {len(DNAMES)} kinds (+ liveness probe); '
        'server = real Server.run x 7 interface configurations x every subset of failing interfaces; '
        f'restart = real Server.run over <= {b["restart_runs"]} iterations (Server.restart between them): 7 first configurations x '
        '{same, 2 changed} interface lists per later run x every subset of interfaces whose port cannot be bound in every run x '
        f'{len(VARIANTS)} bind variants (EADDRINUSE 0..4 times before success; EADDRINUSE for ever / EACCES) x 2 thread orders, real '
        'TCPServer constructor on a fake TCP socket layer, a broadcast and a unicast request (every choice of the bound socket that '
        'gets it) in every run and a broadcast after the end, listener and '
        'interface threads parked in recvfrom / the accept loop until closed. '
        'evaluations = executions of constructor + loop; distinct_nontrivial = executions in which the description must be cut / '
        'the identity does not fit / a non-request datagram is in the sequence / an interface fails; states = distinct cases; '
        'transitions = calls into the listener + socket calls made by it')
    ctx.coverage.update(
        bound_completed=f'description lengths 0..{b["maxlen"]}, mixture window +-{b["w"]}, datagram sequences depth <= {b["depth"]} '
                        f'(+1 probe), Server.run with all failing subsets, restart loop <= {b["restart_runs"]} iterations',
        datagram_kinds=len(DNAMES), interface_lists=len(IFACES), character_classes=len(CLASSES))
    ctx.assume('the fake socket delivers each datagram whole, truncated to the buffer size asked for; recvfrom raising OSError '
               'is the shutdown path of the real code',
               'firmware is "FRAPPY " + a constant version (get_version() raises in this checkout and is bound by the harness)',
               'Server.run: interface threads run inline (each interface starts or fails, then serves until shut down at once); '
               'restart: listener and interface threads are real threads under strict hand-off with the exploring thread (never '
               'concurrent); the accept loop of an interface is replaced (serve_forever refuses a socket that is not listening, as '
               'the selector does; otherwise it serves until shutdown); '
               'a broadcast request reaches every open socket bound to the discovery port (SO_REUSEPORT); '
               'real sockets, the 12 s start-up timeout and the Windows branch are not covered',
               'equipment ids / descriptions outside the eight character classes (e.g. lone surrogates) are not covered')


def replay(case):
    part = core.Part()
    if case['kind'] == 'restart':
        run_restart(part, case['runs'], case.get('reverse', False), case.get('variant'), case.get('choice', 0))
    elif case['kind'] == 'server':
        run_server(part, case['interface'], case['secondary'], case['fail'], case.get('reverse', False))
    else:
        run_listener(part, case['eid'], case['desc'], case['ifaces'], tuple(case['datagrams']), case['broadcast'], case['sub'])
    return part
