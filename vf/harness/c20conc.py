"""C20 concurrent part - per-connection routing of log messages when connections come, go and log at the same time.

schedx: a real node (modules a, b), three fake connections.  Threads: T1 = the interface thread of a connection that
closes (Dispatcher.remove_connection: runs WITHOUT the dispatcher lock), T2 = another connection sending `logging`
requests (under the dispatcher lock), T3 (some cases) = a module thread emitting a log record meanwhile.  All schedules with
<= bound preemptions; scheduling points at every lock operation and at every source line of RemoteLogHandler.handle /
set_conn_level, Module.setRemoteLogging, Dispatcher.remove_connection / reset_connection / set_all_log_levels /
handle_logging.

Oracle at quiescence (all threads joined), from the statement: one probe record per module at every level is emitted; a
connection receives it iff the reference table (the last level each live connection requested for that module; nothing
for a disconnected one) says so - so a subscription of another connection is neither lost nor kept alive by the
disconnect.  No thread dies (a log call must never raise into the module that logs).
"""
from vf import core

LEVELS = {'debug': 10, 'info': 20, 'warning': 30, 'error': 40}
CASES = {
    # pre: requests before the threads start [(conn, module, level)]; threads: lists of operations
    'disc|set-same-module': {'pre': [(0, 'a', 'debug')], 'threads': [[['disc', 0]], [['set', 1, 'a', 'debug']]]},
    'disc|set-other-module': {'pre': [(0, 'a', 'debug')], 'threads': [[['disc', 0]], [['set', 1, 'b', 'info']]]},
    'disc|set-all': {'pre': [(0, 'a', 'info'), (0, 'b', 'debug')], 'threads': [[['disc', 0]], [['set', 1, '.', 'debug']]]},
    'disc|off': {'pre': [(0, 'a', 'debug'), (1, 'a', 'debug'), (2, 'a', 'info')], 'threads': [[['disc', 0]], [['set', 1, 'a', 'off']]]},
    'disc|disc': {'pre': [(0, 'a', 'debug'), (1, 'a', 'info'), (2, 'a', 'debug')], 'threads': [[['disc', 0]], [['disc', 1]]]},
    'disc|set|emit': {'pre': [(0, 'a', 'debug'), (2, 'a', 'debug')],
                      'threads': [[['disc', 0]], [['set', 1, 'a', 'debug']], [['emit', 'a', 'info']]]},
    'set|emit': {'pre': [(2, 'a', 'debug')], 'threads': [[['set', 1, 'a', 'debug'], ['set', 1, 'a', 'off']], [['emit', 'a', 'info']]]},
}


def execute(case, prefix):
    from vf.engines import schedx
    from vf.harness import nodeconc as N     # noqa: F401  (rebinds threading inside frappy)
    from vf import nodes
    from frappy.core import Module
    sc = CASES[case['name']]
    kinds = None if case['level'] == 'line' else {'acquire', 'tryacquire', 'release', 'spawn', 'join', 'yield'}
    sched = schedx.Scheduler(prefix, point_kinds=kinds, max_steps=8000)
    out = {'errors': []}

    def body():
        node = nodes.Node({'a': {'cls': Module}, 'b': {'cls': Module}})
        out['node'] = node
        conns = [node.connect() for _ in range(3)]
        mods = node.secnode.modules
        for c, m, lev in sc['pre']:
            node.request(conns[c], f'logging {m} "{lev}"')
        for c in conns:
            c.take()
        sched.begin()

        def runner(ops):
            def run():
                for op in ops:
                    try:
                        if op[0] == 'disc':
                            node.disconnect(conns[op[1]])
                        elif op[0] == 'set':
                            rep = node.request(conns[op[1]], f'logging {op[2]} "{op[3]}"')
                            if rep[0] != 'logging':
                                out['errors'].append((op, f'reply {rep!r}'))
                        else:
                            mods[op[1]].log.log(LEVELS[op[2]], 'concurrent record')
                    except Exception as e:      # noqa
                        out['errors'].append((op, repr(e)))
            return run
        ts = [schedx.Thread(target=runner(ops), name=f'w{i}') for i, ops in enumerate(sc['threads'])]
        for t in ts:
            t.start()
        for t in ts:
            t.join()
        out['concurrent'] = [len([m for m in c.take() if 'concurrent record' in str(m)]) for c in conns]
        # probe: one record per module and level
        got = {}
        for m in ('a', 'b'):
            for lev, no in LEVELS.items():
                mods[m].log.log(no, 'probe %s %s', m, lev)
                for k, c in enumerate(conns):
                    msgs = c.take()
                    if msgs:
                        got[(k, m, lev)] = len(msgs)
        out['got'] = got
    x = sched.run(body)
    viol = judge(case, sc, x, out)
    if out.get('node') is not None:
        out['node'].close()
    return x, viol, sorted(out.get('got', {}).items())


def reference(sc):
    table = {}       # (conn, module) -> level number or None
    gone = set()
    ops = [('set', c, m, lev) for c, m, lev in sc['pre']]
    # the final table does not depend on the interleaving for these cases: operations of different threads touch different
    # connections; within a thread program order holds
    for ops_t in sc['threads']:
        ops += [tuple(op) for op in ops_t]
    for op in ops:
        if op[0] == 'set':
            mods = ('a', 'b') if op[2] == '.' else (op[2],)
            for m in mods:
                table[(op[1], m)] = None if op[3] == 'off' else LEVELS[op[3]]
        elif op[0] == 'disc':
            gone.add(op[1])
    for (c, m) in list(table):
        if c in gone:
            table[(c, m)] = None
    return table, gone


def judge(case, sc, x, out):
    if x.deadlock:
        return [('conc:deadlock', x.deadlock)]
    if x.livelock:
        return [('conc:livelock', x.livelock)]
    for t in x.threads:
        if t.exc is not None:
            return [(f'conc:thread-died:{type(t.exc).__name__}', f'{t.name}: {t.exc!r}')]
    viol = []
    for op, e in out['errors']:
        viol.append((f'conc:{op[0]}-raised:{e.split("(")[0]}', f'{op}: {e}'))
    table, gone = reference(sc)
    got = out.get('got', {})
    # a record emitted meanwhile: connections whose subscription no thread touches get it exactly once
    touched = {op[1] for ops in sc['threads'] for op in ops if op[0] in ('disc', 'set')}
    for ops in sc['threads']:
        for op in ops:
            if op[0] != 'emit':
                continue
            for k in range(3):
                if k in touched:
                    continue
                lev = table.get((k, op[1]))
                want = 1 if lev is not None and LEVELS[op[2]] >= lev else 0
                if out['concurrent'][k] != want:
                    viol.append(('conc:routing:record-emitted-meanwhile-%s' % ('lost' if want else 'delivered-to-unsubscribed-connection'),
                                 f'connection {k} (level {lev}, untouched by the other threads) got the concurrent {op[2]} record of {op[1]} '
                                 f'{out["concurrent"][k]} times'))
    for k in range(3):
        for m in ('a', 'b'):
            for lev, no in LEVELS.items():
                want = table.get((k, m)) is not None and no >= table[(k, m)]
                n = got.get((k, m, lev), 0)
                if want and n != 1:
                    viol.append(('conc:routing:subscription-lost' if n == 0 else 'conc:routing:record-delivered-twice',
                                 f'connection {k} asked for {m} at level {table[(k, m)]}: probe at {lev} delivered {n} times; got {sorted(got)}'))
                elif not want and n:
                    viol.append(('conc:routing:delivered-to-%s' % ('disconnected-connection' if k in gone else 'unsubscribed-connection'),
                                 f'connection {k} (level {table.get((k, m))}) received the probe of {m} at {lev}'))
    return viol


def cases(tier):
    return [{'kind': 'conc', 'name': n, 'level': 'line',
             'bound': (1 if len(CASES[n]['threads']) > 2 else 2) + (0 if tier == 'quick' else 1)} for n in CASES]


def trace(case):
    from vf.engines import schedx
    import frappy.logging as L
    import frappy.modulebase as MB
    import frappy.protocol.dispatcher as D
    schedx.trace_lines([L.RemoteLogHandler.handle, L.RemoteLogHandler.set_conn_level, MB.Module.setRemoteLogging,
                        D.Dispatcher.remove_connection, D.Dispatcher.reset_connection, D.Dispatcher.set_all_log_levels,
                        D.Dispatcher.handle_logging])


def root_fn(case):
    from vf.engines import schedx
    trace(case)
    x1, _v, g1 = execute(case, [])
    x2, _v, g2 = execute(case, [])
    if x1.trace != x2.trace or g1 != g2:
        raise core.Inconclusive(f'C20 concurrent case {case["name"]}: the default schedule is not deterministic')
    part = core.Part()
    part.data.append([case['name'], schedx.first_level(x1, case['bound'], 0)])
    part.extra['points_in_default_schedule'] += len(x1.points)
    return part


def sub_fn(shard):
    from vf.engines import schedx
    case, prefix = shard
    part = core.Part()
    trace(case)

    def ex(pfx):
        x, viol, got = execute(case, pfx)
        part.evaluations += 1
        part.traces += 1
        part.transitions += x.steps
        part.fps |= x.fingerprints
        part.outcomes[case['name'] + ':' + str(got)] += 1
        if x.preemptions:
            part.nontrivial += 1
        for sig, detail in viol:
            part.violation(f'C20:{sig}', dict(case, prefix=list(x.choices)), f'case {case["name"]} schedule {x.choices}: {detail}')
        if part.evaluations % 499 == 1:
            part.sample({'case': case['name'], 'schedule': list(x.choices), 'probe_deliveries': [list(map(str, g)) for g in got]})
        return x
    if prefix is None:
        ex([])
    else:
        schedx.explore(ex, case['bound'], prefix=prefix)
    part.extra['schedules'] += part.evaluations
    return part


def run_conc(ctx):
    cs = cases(ctx.tier)
    roots = ctx.pmap(root_fn, cs, name='conc_determinism')
    byname = {c['name']: c for c in cs}
    shards = []
    for name, prefixes in roots.data:
        shards.append((byname[name], None))
        shards += [(byname[name], p) for p in prefixes]
    ctx.total.data.clear()
    ctx.pmap(sub_fn, shards, name='concurrent_routing')
    ctx.coverage.update(concurrent_cases={c['name']: c['bound'] for c in cs})


def replay_conc(case):
    trace(case)
    part = core.Part()
    x, viol, got = execute(case, case['prefix'])
    for sig, detail in viol:
        part.violation(f'C20:{sig}', case, detail)
    part.notes.append(repr(got))
    part.evaluations = 1
    return part
