"""C20 - logging: exact per-connection routing, rotation keeps the newest files.

enumx, two parts, both bounded-exhaustive against the real code.

ROUTING  real: SecNode + Dispatcher (handle_logging, handle__ident -> reset_connection, remove_connection,
         set_all_log_levels, send_log_msg), Module.setRemoteLogging, RemoteLogHandler, the mlzlog logger tree of a node
         (vf.nodes.Node) with modules m1, m2 (frappy.modules.Module).  fake: connections (record send_reply).
  operations   logging <m1|m2|.> <level>   for every level name debug, comlog, info, warning, error, off  (node.request)
               logging <m1|.> <bad>        bad = unknown name, empty string, number, boolean, list, object, no data
               logging nomod "debug"       unknown module
               *IDN?                       (node.request)
               disconnect                  (node.disconnect -> Dispatcher.remove_connection)
               emit(module, level)         the module's own logger logs one record at debug, comlog, info, warning,
                                           error or critical
  sub-check `bfs`: explicit-state exploration.  Abstract state = per connection: disconnected, or the level chosen for
         each module (the (connection x module) level table).  The reference model (ref_apply, written from the
         statement) is explored breadth first from "all connected, everything off" to closure; it yields every reachable
         abstract state with a shortest history.  For EVERY reachable state S and EVERY operation op the real node is
         built afresh, driven through history(S), op is applied, the reply is judged, and the complete observable state
         is probed: every (module, record level debug..error) is emitted and the deliveries to every connection (also
         disconnected ones) are compared with the reference successor.  (Operations that must leave the table
         unchanged are applied one after the other to one node, each followed by the probe; if anything disagrees they
         are repeated one by one on fresh nodes so that a reported case is always shortest history + operation.)  Because every transition of the real code from every
         reachable reference state agrees with the reference (or is reported), the set of reachable real states,
         seen through the probe, is exactly the reference set: the exploration is closed.
         Merging argument: two histories with the same table differ in the real objects only in the insertion order
         of RemoteLogHandler.subscriptions[mod] (decides the order in which connections are served, not what each one
         gets), in left-over empty dicts, and in whether Module.remoteLogHandler is already cached - sub-check
         `histories` (no merging) covers these for short histories.
         quick: 2 connections (37^2 = 1369 states); thorough: 3 connections, reduced by the symmetry of connections
         (one representative per multiset of rows; every operation of every connection is applied to it).
  sub-check `redundant`: the differential check that justifies the merging ("a state reached by two different
         histories behaves identically").  For every abstract state S of 2 connections, every operation r that leaves
         the reference table unchanged (`logging <m> <the level it has>`, in particular `logging <other module> off`,
         `logging . <level>` when both have it, *IDN? with everything off, a refused invalid level, the unknown module;
         quick: one representative refused level, thorough: all seven on both targets) and every final operation f
         (quick: the operations of the clause "switching off, re-identifying or disconnecting stops delivery":
         logging <m1|m2|.> off, *IDN?, disconnect of either connection; thorough: every operation): fresh node,
         history(S) + r + f, reply judged, full probe.  A disagreement that the route without r does not show is
         reported under `...:only-after-redundant-<class of r>` (implementation state that depends on the history
         beyond the table, e.g. a remembered "has logging" flag that a single-module `off` clears).
  sub-check `hidden`: bfs to closure (2 connections) and the unmerged histories (thorough: also `redundant`) on a node with
         modules m1 and aux, aux configured with export=False: it is not in the description but `logging aux <level>`
         addresses it by name.  Demanded: delivery of aux's records exactly as chosen by name, nothing any more after
         *IDN? / disconnect / `logging aux off`.  Whether `logging . <level>` also addresses a module outside the
         description is not said by the statement: the harness asks the implementation once (one `logging . debug` +
         one record of aux) and then demands that `.` behaves consistently that way in every state.
  sub-check `histories`: every operation sequence of length <= 2 (quick) / 3 (thorough) on 2 connections without any
         merging (emit is an ordinary operation here), judged after every step, full probe at the end; and
         `histories-reduced`: every sequence of length 3 (quick) / 4 (thorough) over the alphabet without emits and with
         one representative refused level (44 operations), again judged at every step and probed at the end.

ROTATION real: frappy.logging.LogfileHandler (mlzlog.LogfileHandler) doRollover / emit on a scratch directory
         (tempfile.mkdtemp, removed afterwards).  fake: the `time` name inside mlzlog (virtual date).
  cases  every subset of dated log files <root>-<day>.log over a window of 6 (quick) / 7 (thorough) days ending on the
         day the handler starts x foreign entries (file sorting before / after the log files, directory before /
         after; quick: none, each alone, all; thorough: every subset, plus a log file of another root) x retention
         N = 0..7 x 3 consecutive rollovers, the date advancing one day each (judged after each: covers 1, 2 and 3
         rollovers); thorough also: date jumps of 2 days, a second doRollover on the same day, and the production path
         (the rollover triggered by emit at midnight instead of a direct call).
         One record is written before the first rollover (mlzlog's doRollover needs an open stream) and one after each.
         Without foreign entries every directory is also run with modification times that disagree with the dates in the
         file names (reversed order; all later than anything the handler writes - files restored from a backup or
         touched later): "newest" means the newest log date.
  sub-check `records`: record histories through the production path only (handler.emit on the virtual clock decides
         when to roll over): every sequence of 2 (thorough: 3) steps (gap of 1, 2 or 3 days, then 1, 2 or 3 records)
         x max_days 0..7 x start directories (empty, every window day, every second day; thorough: 3 more) x foreign
         sets (none, all four; thorough: 2 more).  A gap of g days makes mlzlog roll over g times in a row - once per
         record - to the same (today's) file.  Judged after EVERY record: F1, and every record written so far is still
         in its file (for today's file and the files that have to be kept).

Oracle (from the statement)
  R1 a connection gets a `log` message for a record iff it is connected, has chosen a level other than off for the
     record's module and the record's level is at or above that level; exactly one message, naming module and level and
     carrying the text; all other connections get exactly what their own rows say (unaffected).
  R2 after `logging <mod> off`, `*IDN?` or disconnect the acting connection gets nothing any more (same table).
  R3 an invalid level / unknown module gets an error reply and changes nothing; a valid request gets a `logging` reply.
  R4 emitting a record never raises into the module that logs.
  F1 after a rollover with retention N >= 1 today's file exists in the directory and receives the next record; the
     N-1 newest earlier dated files of this handler still exist; everything that disappeared is an earlier dated file
     of this handler older than those.  N = 0: nothing disappears.

Oracle calibration
  * level order debug < comlog < info < warning < error is frappy's documented order (COMLOG between DEBUG and INFO);
    "critical" is the one standard logging level above error - a record at that level is "at or above" any chosen level.
  * numeric level values (10, 20, ...) and upper-case names are accepted by frappy; SECoP only defines the lower-case
    names; they are left out of the catalogue (neither demanded nor forbidden).
  * the error class of a refused request is not prescribed (frappy answers InternalError for a bad level).
  * records a module would log by itself while a request is handled are judged by the table before OR after (skipped);
    none occur.
  * retention: older files MAY be removed, the statement does not force it (reported as outcome only); entries that
    are not dated log files of this handler (foreign files, directories) are never "older files" and must stay; files
    dated in the future (clock set back) are not in the catalogue.
  * an exception escaping doRollover is recorded as outcome, the verdict is taken from the directory.
"""
import itertools
import logging
import os
import re
import shutil
import tempfile
import time as realtime

import mlzlog

from vf import core, nodes

import frappy.logging
from frappy.modules import Module

PROPERTY = 'C20'

# ---------------------------------------------------------------------------------------------------------------
# ROUTING: catalogues and reference model

MODS = ('m1', 'm2')
LEVELS = ('debug', 'comlog', 'info', 'warning', 'error', 'off')          # what a connection can choose
THRESHOLD = {'debug': 10, 'comlog': 15, 'info': 20, 'warning': 30, 'error': 40}
RECORDS = (('debug', 10), ('comlog', 15), ('info', 20), ('warning', 30), ('error', 40), ('critical', 50))
TARGETS = ('m1', 'm2', '.')
BAD_LEVELS = (('unknown-name', '"nonsense"'), ('empty-string', '""'), ('number', '5'), ('boolean', 'true'),
              ('list', '["debug"]'), ('object', '{"level":"debug"}'), ('missing', ''))
BAD_TARGETS = ('m1', '.')
BFS_RECORDS = RECORDS[:5]       # the probe of the state exploration; the critical record is an operation of `histories`
OFFROW = ('off',) * len(MODS)


# A profile chooses the two modules of the node.  'plain': m1, m2 (both in the description).  'hidden': m1 and aux, where
# aux is configured with export=False: it is no part of the description, but `logging aux <level>` addresses it by name.
# Whether `logging . <level>` also addresses a module outside the description is not said by the statement: the harness
# asks the implementation once (probe_dot_semantics) and then demands that '.' is used consistently that way; what IS
# demanded for the hidden module: delivery exactly as chosen by name, and nothing any more after *IDN? / disconnect.
PROFILES = {'plain': ('m1', 'm2'), 'hidden': ('m1', 'aux')}
HIDDEN = ('aux',)
PROFILE = 'plain'
DOT_MODS = MODS          # the modules `.` addresses


def use_profile(name, dot_hidden=None):
    global PROFILE, MODS, TARGETS, DOT_MODS          # pylint: disable=global-statement
    PROFILE = name
    MODS = PROFILES[name]
    TARGETS = MODS + ('.',)
    DOT_MODS = MODS
    if name == 'hidden':
        if dot_hidden is None:
            dot_hidden = probe_dot_semantics()
        if not dot_hidden:
            DOT_MODS = tuple(m for m in MODS if m not in HIDDEN)
    return dot_hidden


def module_cfg():
    return {m: ({'cls': Module, 'export': False} if m in HIDDEN else {'cls': Module}) for m in MODS}


def probe_dot_semantics():
    """does `logging . <level>` address a module that is not exported?  (asked once, both answers are accepted)"""
    node = nodes.Node(module_cfg())
    try:
        conn = node.connect()
        node.request(conn, 'logging . "debug"')
        conn.take()
        node.secnode.modules[HIDDEN[0]].log.error('probe')
        return any(m[0] == 'log' for m in conn.take())
    finally:
        node.close()


def initial(nconn):
    return (OFFROW,) * nconn


def ops_for(state, with_emit):
    """every operation enabled in the abstract state (disconnected connections do nothing any more)"""
    ops = []
    for c, row in enumerate(state):
        if row is None:
            continue
        for t in TARGETS:
            for lev in LEVELS:
                ops.append(('set', c, t, lev))
        for t in BAD_TARGETS:
            for cls, _ in BAD_LEVELS:
                ops.append(('bad', c, t, cls))
        ops.append(('badmod', c))
        ops.append(('idn', c))
        ops.append(('disc', c))
    if with_emit:
        for m in MODS:
            for lev, _ in RECORDS:
                ops.append(('emit', m, lev))
    return ops


def ref_apply(state, op):
    """reference model: the (connection x module) level table after op"""
    kind = op[0]
    if kind in ('bad', 'badmod', 'emit'):
        return state
    c = op[1]
    rows = list(state)
    if kind == 'set':
        _, _, target, lev = op
        row = list(rows[c])
        for i, m in enumerate(MODS):
            if target == m or target == '.' and m in DOT_MODS:
                row[i] = lev
        rows[c] = tuple(row)
    elif kind == 'idn':
        rows[c] = OFFROW
    elif kind == 'disc':
        rows[c] = None
    return tuple(rows)


def ref_delivered(state, c, mod, levelno):
    row = state[c]
    if row is None:
        return False
    lev = row[MODS.index(mod)]
    return lev != 'off' and levelno >= THRESHOLD[lev]


def opclass(op):
    if op[0] == 'set':
        return 'logging-off' if op[3] == 'off' else 'logging-set'
    return {'bad': 'logging-invalid-level', 'badmod': 'logging-unknown-module', 'idn': 'ident', 'disc': 'disconnect',
            'emit': 'emit', 'start': 'start'}[op[0]]


def optext(op):
    k = op[0]
    if k == 'set':
        return f'conn{op[1] + 1}: logging {op[2]} "{op[3]}"'
    if k == 'bad':
        return f'conn{op[1] + 1}: logging {op[2]} {dict(BAD_LEVELS)[op[3]]}'
    if k == 'badmod':
        return f'conn{op[1] + 1}: logging nomod "debug"'
    if k == 'idn':
        return f'conn{op[1] + 1}: *IDN?'
    if k == 'disc':
        return f'conn{op[1] + 1}: disconnect'
    if k == 'emit':
        return f'{op[1]}.log.{op[2]}(..)'
    return str(op)


def reference_bfs(nconn, symmetric, maxdepth=None):
    """-> list of (state, history) for every abstract state reachable in the reference model (shortest history first);
    with `symmetric` one representative per multiset of rows"""
    def key(s):
        return tuple(sorted(s, key=repr)) if symmetric else s
    init = initial(nconn)
    seen = {key(init): 0}
    order = [(init, ())]
    frontier = [(init, ())]
    depth = 0
    ntrans = 0
    while frontier and (maxdepth is None or depth < maxdepth):
        depth += 1
        nxt = []
        for state, hist in frontier:
            for op in ops_for(state, False):
                ntrans += 1
                s2 = ref_apply(state, op)
                k = key(s2)
                if k not in seen:
                    seen[k] = depth
                    item = (s2, hist + (op,))
                    order.append(item)
                    nxt.append(item)
        frontier = nxt
    return order, depth, ntrans, bool(frontier)


# ---------------------------------------------------------------------------------------------------------------
# ROUTING: driving the real node

class Rig:
    """a fresh real node with nconn fake connections"""
    def __init__(self, nconn, part):
        self.part = part
        self.node = nodes.Node(module_cfg())
        self.conns = [self.node.connect() for _ in range(nconn)]
        self.mods = {m: self.node.secnode.modules[m] for m in MODS}
        self.state = initial(nconn)
        self.serial = 0
        self.loggernames = {m: self.mods[m].log.name for m in MODS}

    def close(self):
        self.node.close()

    def module_records(self):
        names = set(self.loggernames.values())
        return [r for r in self.node.loghandler.records if r[0] in names]

    def take(self):
        return [c.take() for c in self.conns]

    def do(self, op):
        """apply op to the real node; -> (reply or None, exception or None, messages per connection, texts emitted)"""
        self.part.transitions += 1
        del self.node.loghandler.records[:]
        kind = op[0]
        reply = exc = None
        text = None
        try:
            if kind == 'set':
                reply = self.node.request(self.conns[op[1]], f'logging {op[2]} "{op[3]}"')
            elif kind == 'bad':
                reply = self.node.request(self.conns[op[1]], f'logging {op[2]} {dict(BAD_LEVELS)[op[3]]}'.rstrip())
            elif kind == 'badmod':
                reply = self.node.request(self.conns[op[1]], 'logging nomod "debug"')
            elif kind == 'idn':
                reply = self.node.request(self.conns[op[1]], '*IDN?')
            elif kind == 'disc':
                self.node.disconnect(self.conns[op[1]])
            elif kind == 'emit':
                self.serial += 1
                text = f'record {self.serial} of {op[1]} at {op[2]}'
                self.mods[op[1]].log.log(dict(RECORDS)[op[2]], 'record %d of %s at %s', self.serial, op[1], op[2])
        except Exception as e:      # noqa  node.request maps request errors to replies; anything here escaped
            exc = e
        return reply, exc, self.take(), text


def judge_emit(part, state, op, exc, msgs, text, case, after, actor):
    """R1/R4 for one emitted record; `after` = class of the operation that produced `state`; returns True if fine"""
    mod, levname = op[1], op[2]
    levelno = dict(RECORDS)[levname]
    tag = (':record-critical' if levname == 'critical' else '') + (':module-not-exported' if mod in HIDDEN else '')
    ok = True
    if exc is not None:
        part.violation(f'C20:routing:emit-raises:{type(exc).__name__}{tag}', case,
                       f'{case_text(case)}: {optext(op)} raised {exc!r} into the module (table: {table_text(state)})')
        if levname == 'critical':     # counted on its own, so that the outcome histogram still shows what the other record levels do
            part.extra['critical_record_raised'] += 1
            return True
        return False
    for c, got in enumerate(msgs):
        want = ref_delivered(state, c, mod, levelno)
        who = 'own-connection' if c == actor else 'other-connection' if actor is not None else 'connection'
        logs = [m for m in got if m[0] == 'log']
        problem = None
        if len(got) != len(logs):
            problem = 'message-that-is-no-log-message'
        elif want and not logs:
            problem = 'not-delivered-although-enabled-at-or-below-the-record-level'
        elif not want and logs:
            row = state[c]
            if row is None:
                problem = 'delivered-to-disconnected-connection'
            elif row[MODS.index(mod)] == 'off':
                problem = 'delivered-although-module-is-off'
            else:
                problem = 'delivered-below-the-chosen-level'
        elif len(logs) > 1:
            problem = 'delivered-more-than-once'
        elif want:
            action, spec, data = logs[0]
            parts = str(spec).split(':')
            if parts[0] != mod or data != text or (levname != 'critical' and parts[1:] != [levname]):
                problem = 'log-message-malformed'
        if problem:
            ok = False
            part.violation(f'C20:routing:after-{after}:{who}:{problem}{tag}{case.get("sigtag", "")}', case,
                           f'{case_text(case)}: then {optext(op)}: conn{c + 1} got {got!r}, expected '
                           f'{"one log message" if want else "nothing"} (table: {table_text(state)})')
    return ok


def judge_reply(part, op, reply, exc, msgs, case, state_before):
    """R3 + nothing is delivered by a request"""
    ok = True
    kind = op[0]
    if exc is not None:
        part.violation(f'C20:routing:{opclass(op)}:raises:{type(exc).__name__}', case, f'{case_text(case)}: {exc!r}')
        return False
    if kind == 'set' and (not reply or reply[0] != 'logging'):
        part.violation(f'C20:routing:{opclass(op)}:valid-request-refused', case, f'{case_text(case)}: reply {reply!r}')
        ok = False
    if kind in ('bad', 'badmod') and (not reply or not str(reply[0]).startswith('error_')):
        cls = op[3] if kind == 'bad' else 'unknown-module'
        part.violation(f'C20:routing:{opclass(op)}:accepted:{cls}', case, f'{case_text(case)}: reply {reply!r}, expected an error reply')
        ok = False
    if kind == 'idn' and (not reply or str(reply[0]).startswith('error_')):
        part.violation('C20:routing:ident:refused', case, f'{case_text(case)}: reply {reply!r}')
        ok = False
    if any(msgs):
        part.violation(f'C20:routing:{opclass(op)}:messages-sent-without-a-record', case,
                       f'{case_text(case)}: messages {msgs!r} although no module logged anything')
        ok = False
    return ok


def table_text(state):
    return ' '.join(f'conn{c + 1}=' + ('disconnected' if row is None else '/'.join(f'{m}:{l}' for m, l in zip(MODS, row)))
                    for c, row in enumerate(state))


def case_text(case):
    return f'{case["nconn"]} connections; ' + '; '.join(optext(tuple(op)) for op in case['ops'])


def probe(part, rig, state, case, after, actor, records=RECORDS):
    """emit every (module, level) and compare all deliveries to all connections with the reference table `state`"""
    ok = True
    for m in MODS:
        module_ok = True
        for lev, _ in records:
            op = ('emit', m, lev)
            reply, exc, msgs, text = rig.do(op)
            part.traces += 1
            # a problem that the ordinary levels of this module already showed is not reported again for the critical record
            sink = core.Part() if lev == 'critical' and not module_ok else part
            fine = judge_emit(sink, state, op, exc, msgs, text, case, after, actor)
            module_ok = module_ok and fine
            ok = ok and fine
    return ok


def run_history(part, nconn, ops, judge_all=True, records=RECORDS, sigtag=''):
    """fresh node, apply ops (judging every step if judge_all, else only the last), full probe at the end;
    used by bfs (history + op), redundant, histories and replay"""
    rig = Rig(nconn, part)
    case = {'kind': 'routing', 'nconn': nconn, 'ops': [list(op) for op in ops]}
    if sigtag:
        case['sigtag'] = sigtag
    if PROFILE != 'plain':
        case.update(profile=PROFILE, dot_hidden=len(DOT_MODS) == len(MODS))
    try:
        state = rig.state
        ok = True
        last = len(ops) - 1
        lastclass, actor = 'start', None          # the last operation that is not an emit
        for i, op in enumerate(ops):
            if op[0] != 'emit' and state[op[1]] is None:
                raise core.Inconclusive(f'operation {op} of a disconnected connection in {ops}')
            reply, exc, msgs, text = rig.do(op)
            judged = judge_all or i == last
            stepcase = dict(case, ops=case['ops'][:i + 1])
            if op[0] == 'emit':
                if judged:
                    part.traces += 1
                    ok = judge_emit(part, state, op, exc, msgs, text, stepcase, lastclass, actor) and ok
            else:
                if rig.module_records():
                    part.extra['module_records_during_request'] += 1
                    msgs = [[] for _ in msgs]
                if judged:
                    ok = judge_reply(part, op, reply, exc, msgs, stepcase, state) and ok
                state = ref_apply(state, op)
                lastclass, actor = opclass(op), op[1]
        ok = probe(part, rig, state, case, lastclass, actor, records) and ok
        return ok, state
    finally:
        rig.close()


def run_batch(part, nconn, hist, state, noops):
    """the operations that must leave the table of `state` unchanged, one after the other on ONE node driven through
    hist, each judged and followed by a full probe.  Any disagreement -> False and nothing is recorded: the caller
    repeats them one by one on fresh nodes (so that every reported case is a shortest history on a fresh node)"""
    scratch = core.Part()
    rig = Rig(nconn, scratch)
    try:
        for op in hist:
            rig.do(op)
        rig.take()
        for op in noops:
            case = {'kind': 'routing', 'nconn': nconn, 'ops': [list(o) for o in tuple(hist) + (op,)]}
            if PROFILE != 'plain':
                case.update(profile=PROFILE, dot_hidden=len(DOT_MODS) == len(MODS))
            reply, exc, msgs, _ = rig.do(op)
            if rig.module_records():
                return False
            if not judge_reply(scratch, op, reply, exc, msgs, case, state):
                return False
            if not probe(scratch, rig, state, case, opclass(op), op[1], BFS_RECORDS):
                return False
    finally:
        rig.close()
    if scratch.violations:
        return False
    part.merge(scratch)
    return True


def bfs_shard(shard):
    """all operations from each abstract state of the shard: (nconn, [(state, history), ...])"""
    _, nconn, items = shard
    part = core.Part()
    for state, hist in items:
        part.states += 1
        if not hist:
            part.evaluations += 1
            ok, _ = run_history(part, nconn, (), judge_all=False, records=BFS_RECORDS)
            part.outcomes['initial:' + ('agrees' if ok else 'VIOLATION')] += 1
        ops = ops_for(state, False)
        noops = [op for op in ops if ref_apply(state, op) == state]
        batched = run_batch(part, nconn, hist, state, noops)
        part.extra['bfs_batches' if batched else 'bfs_batches_repeated_singly'] += 1
        for op in ops:
            part.evaluations += 1
            s2 = ref_apply(state, op)
            changed = s2 != state
            if changed or not batched:
                ok, _ = run_history(part, nconn, tuple(hist) + (op,), judge_all=False, records=BFS_RECORDS)
            else:
                ok = True
            if changed or op[0] in ('bad', 'badmod'):
                part.nontrivial += 1
            part.outcomes[f'{opclass(op)}:{"table-changes" if changed else "table-unchanged"}:'
                          f'{"agrees" if ok else "VIOLATION"}'] += 1
            if part.evaluations % 2503 == 1:
                part.sample({'sub': 'bfs', 'connections': nconn, 'state': table_text(state), 'operation': optext(op),
                             'successor': table_text(s2), 'agrees': ok})
    return part


BAD_REPRESENTATIVE = 'unknown-name'


def inserted_ops(state, full):
    """operations that leave the reference table of `state` unchanged (candidates for a redundant history): a level
    set to what it already is (incl. `off` for a module that is off), *IDN? of a connection with everything off, a
    refused request.  full: all of them; else one refused invalid level + the unknown module per connection"""
    res = []
    for op in ops_for(state, False):
        if ref_apply(state, op) != state:
            continue
        if not full and op[0] == 'bad' and (op[2] != 'm1' or op[3] != BAD_REPRESENTATIVE):
            continue
        res.append(op)
    return res


def final_ops(state, full):
    """operations applied after the redundant history.  full: every operation; else the operations of the clause
    "switching off, re-identifying or disconnecting stops delivery" (their effect is what depends on remembered
    history): logging <m1|m2|.> off, *IDN?, disconnect of every connected connection"""
    ops = ops_for(state, False)
    if full:
        return ops
    return [op for op in ops if op[0] in ('idn', 'disc') or op[0] == 'set' and op[3] == 'off']


def redundant_shard(shard):
    """differential check behind the merging of the bfs: the abstract state reached by the shortest history and the same
    state reached by shortest history + one redundant operation must have the same futures.  For every state, every
    inserted operation r and every final operation f: fresh node, history + r + f, reply of f judged, full probe."""
    _, nconn, items, full = shard
    part = core.Part()
    for state, hist in items:
        for r in inserted_ops(state, full):
            part.states += 1
            for f in final_ops(state, full):
                part.evaluations += 1
                part.nontrivial += 1
                ops = tuple(hist) + (r, f)
                scratch = core.Part()
                ok, s2 = run_history(scratch, nconn, ops, judge_all=False, records=BFS_RECORDS)
                label = 'same-future'
                if not ok:
                    plain = core.Part()
                    ok_plain, _ = run_history(plain, nconn, tuple(hist) + (f,), judge_all=False, records=BFS_RECORDS)
                    if ok_plain:
                        # only the redundant route misbehaves: report it under its own signature class
                        scratch = core.Part()
                        run_history(scratch, nconn, ops, judge_all=False, records=BFS_RECORDS,
                                    sigtag=f':only-after-redundant-{opclass(r)}')
                        label = 'DIFFERENT-FUTURE'
                    else:
                        label = 'VIOLATION-on-both-routes'
                part.merge(scratch)
                part.outcomes[f'redundant-{opclass(r)}:then-{opclass(f)}:{label}'] += 1
                if part.evaluations % 3001 == 1:
                    part.sample({'sub': 'redundant', 'state': table_text(state), 'inserted': optext(r), 'final': optext(f),
                                 'successor': table_text(s2), 'result': label})
    return part


def hidden_shard(shard):
    """a routing shard on the node with the module that is not exported: (kind, dot_hidden, inner shard)"""
    kind, dot_hidden, inner = shard
    use_profile('hidden', dot_hidden)
    try:
        return {'bfs': bfs_shard, 'redundant': redundant_shard, 'histories': histories_shard}[kind](inner)
    finally:
        use_profile('plain')


def reduced_ops(state):
    """alphabet of the deeper unmerged histories: no emits (the probe after the last operation emits everything) and
    one representative refused level"""
    return [op for op in ops_for(state, False)
            if op[0] != 'bad' or (op[2] == 'm1' and op[3] == BAD_REPRESENTATIVE)]


def histories_shard(shard):
    """every operation sequence starting with `first`, lengths minlen..depth, executed without any merging"""
    _, nconn, first, depth, reduced, minlen = shard
    part = core.Part()
    name = 'reduced-history' if reduced else 'history'

    def rec(state, ops):
        if len(ops) >= minlen:
            part.evaluations += 1
            part.states += 1
            ok, _ = run_history(part, nconn, ops, judge_all=True)
            kinds = {opclass(o) for o in ops}
            if len(kinds) > 1:
                part.nontrivial += 1
            part.outcomes[f'{name}-of-{len(ops)}:{"agrees" if ok else "VIOLATION"}'] += 1
            if part.evaluations % 1201 == 1:
                part.sample({'sub': 'histories', 'history': [optext(o) for o in ops], 'agrees': ok})
        if len(ops) >= depth:
            return
        for op in (reduced_ops(state) if reduced else ops_for(state, True)):
            rec(ref_apply(state, op), ops + (op,))

    rec(ref_apply(initial(nconn), first), (first,))
    return part


# ---------------------------------------------------------------------------------------------------------------
# ROTATION

ROOT = 'node'
DAY = 86400
BASE = (2025, 12, 26)           # the windows cross a year boundary
FOREIGN = {
    'aaa.txt': 'file',          # sorts before the log files
    'zzz.txt': 'file',          # sorts after
    'comlog': 'dir',            # frappy's main log directory really contains sub-directories (comlog/, <node>/)
    'znode': 'dir',
    'other-2025-12-30.log': 'file',     # dated log file of another root
}
# names that START WITH the root name followed by something else than '-': no log files of this handler either
# ('-' sorts before '.', digits, '_' and letters, after '+' and ' ')
PREFIXED = {
    'node.log': 'file',                     # after the dated files
    'node_keep-2020-01-01.log': 'file',     # after
    'node+2020-01-01.log': 'file',          # before
    'node.txt': 'file',                     # after, no .log suffix
    'node2-2025-12-28.log': 'file',         # digit: after
    'nodes-2025-12-28.log': 'file',         # another letter: after
    'node notes': 'file',                   # before, no .log suffix
}
FOREIGN.update(PREFIXED)
BASE_FOREIGN = ['aaa.txt', 'zzz.txt', 'comlog', 'znode']


class VirtualTime:
    """stands in for the `time` module inside mlzlog: the clock is a date the harness sets"""
    def __init__(self):
        self.now = 0.0

    def set_day(self, index):
        y, m, d = BASE
        self.now = realtime.mktime((y, m, d, 12, 0, 0, 0, 0, -1)) + index * DAY

    def time(self):
        return self.now

    def localtime(self, secs=None):
        return realtime.localtime(self.now if secs is None else secs)

    def strftime(self, fmt, t=None):
        return realtime.strftime(fmt, self.localtime() if t is None else t)

    def __getattr__(self, name):
        return getattr(realtime, name)


VT = VirtualTime()
mlzlog.time = VT
DATED = re.compile(re.escape(ROOT) + r'-(\d{4}-\d{2}-\d{2})\.log$')


def day_name(index):
    y, m, d = BASE
    t = realtime.localtime(realtime.mktime((y, m, d, 12, 0, 0, 0, 0, -1)) + index * DAY)
    return '%04d-%02d-%02d' % t[:3]


def listing(directory):
    return {n for n in os.listdir(directory) if n != 'current'}


def make_record(text):
    return logging.LogRecord('node', logging.INFO, __file__, 1, text, (), None)


def run_rotation(part, tmp, window, present, foreign, ndays, mode, serial, mtimes='as-created'):
    """one case: directory = dated files for the window days in `present` + foreign entries; handler starts on the
    last window day with retention ndays; 3 rollovers.  mode: direct | jump2 | twice | via-emit"""
    case = {'kind': 'rotation', 'window': window, 'present': list(present), 'foreign': list(foreign), 'max_days': ndays,
            'mode': mode}
    if mtimes != 'as-created':
        case['mtimes'] = mtimes
    part.evaluations += 1
    part.states += 1
    if ndays and (present or foreign):
        part.nontrivial += 1
    logdir = os.path.join(tmp, f'case{serial}')
    directory = os.path.join(logdir, ROOT)
    os.makedirs(directory)
    for i in present:
        with open(os.path.join(directory, f'{ROOT}-{day_name(i)}.log'), 'w') as f:
            f.write(f'old log of day {i}\n')
    for name in foreign:
        path = os.path.join(directory, name)
        if FOREIGN[name] == 'dir':
            os.mkdir(path)
            with open(os.path.join(path, 'inside.log'), 'w') as f:
                f.write('x\n')
        else:
            with open(path, 'w') as f:
                f.write('foreign\n')
    # modification times that disagree with the dates in the names (files restored from a backup / edited later):
    # "newest" is the newest log DATE, the file system's idea of recency does not count
    now = realtime.time()
    for rank, i in enumerate(present):
        path = os.path.join(directory, f'{ROOT}-{day_name(i)}.log')
        if mtimes == 'reversed':
            os.utime(path, (now - 5000 - 10 * rank, now - 5000 - 10 * rank))
        elif mtimes == 'touched-later':
            os.utime(path, (now + 3600 + rank, now + 3600 + rank))
    today = window - 1
    VT.set_day(today)
    handler = frappy.logging.LogfileHandler(logdir, ROOT, max_days=ndays)
    labels = []
    try:
        part.transitions += 1
        handler.emit(make_record('written before the first rollover'))
        for step in range(3):
            before = listing(directory)
            today += 2 if mode == 'jump2' else 1
            VT.set_day(today)
            exc = None
            text = f'written after rollover {step + 1}'
            try:
                part.transitions += 1
                if mode == 'via-emit':
                    handler.emit(make_record('first record of the day'))   # crosses midnight: the real emit calls doRollover
                else:
                    handler.doRollover()
                    if mode == 'twice':
                        part.transitions += 1
                        handler.doRollover()
            except Exception as e:      # noqa
                exc = e
            part.transitions += 1
            handler.emit(make_record(text))
            part.traces += 1
            label = judge_rotation(part, case, directory, before, today, ndays, step, text, exc)
            labels.append(label)
            if label.startswith('VIOLATION'):
                break
    finally:
        handler.close()
        shutil.rmtree(logdir, ignore_errors=True)
    part.outcomes[f'rotation:{mode}:{"mtimes-" + mtimes + ":" if mtimes != "as-created" else ""}'
                  f'N={"0" if not ndays else "1" if ndays == 1 else ">1"}:' + labels[-1]] += 1
    if part.evaluations % 499 == 1:
        part.sample({'sub': 'rotation', 'dated files (day index)': list(present), 'foreign': list(foreign), 'max_days': ndays,
                     'mode': mode, 'after each rollover': labels})


def judge_rotation(part, case, directory, before, today, ndays, step, text, exc, contents=None, word='rollover'):
    after = listing(directory)
    cur = f'{ROOT}-{day_name(today)}.log'
    earlier = sorted(n for n in before if DATED.match(n) and n < cur)
    keep = earlier[-(ndays - 1):] if ndays > 1 else []
    removable = set(earlier) - set(keep) if ndays >= 1 else set()
    removed = before - after
    what = (f'directory {sorted(before)} retention max_days={ndays} mode={case["mode"]}, {word} #{step + 1} to {cur}'
            + (f' (doRollover raised {exc!r})' if exc is not None else '') + f': afterwards {sorted(after)}')
    stepcase = dict(case, steps=step + 1)
    bad = False
    written = False
    # the same symptom with and without foreign entries in the directory are different defect classes (a handler that
    # counts every directory entry is only wrong when there are foreign entries)
    fclass = ('with-mtimes-disagreeing-with-the-dates' if case.get('mtimes')
              else 'with-root-prefixed-entries' if any(n in PREFIXED for n in case['foreign'])
              else 'with-foreign-entries' if case['foreign'] else 'plain')
    if cur in after:
        try:
            with open(os.path.join(directory, cur), encoding='utf-8') as f:
                written = text in f.read()
        except OSError:
            written = False
    if cur not in after:
        bad = True
        part.violation(f'C20:rollover:file-being-written-removed:{fclass}', stepcase,
                       f'{what}; the file being written ({cur}) is not in the directory')
    elif not written:
        bad = True
        part.violation(f'C20:rollover:record-not-in-the-file-being-written:{fclass}', stepcase,
                       f'{what}; the record logged after the rollover is not in {cur}')
    if contents:
        # every record written so far to a file that has to be there (today's and the N-1 newest earlier ones; all for N = 0)
        for name in ([cur] + (keep if ndays else earlier)):
            if name not in after or name not in contents:
                continue
            try:
                with open(os.path.join(directory, name), encoding='utf-8') as f:
                    data = f.read()
            except OSError:
                data = ''
            missing = [t for t in contents[name] if t not in data]
            if missing and not (name == cur and not written and missing == [text]):
                bad = True
                which = 'the-file-being-written' if name == cur else 'a-kept-earlier-file'
                part.violation(f'C20:rollover:records-lost-from-{which}:{fclass}', stepcase,
                               f'{what}; {name} no longer contains {missing} (the file was removed and created again?)')
    if ndays == 0 and removed:
        bad = True
        part.violation('C20:rollover:removed-although-retention-is-0', stepcase, f'{what}; removed {sorted(removed)}')
    lost = sorted(set(keep) & removed)
    if lost:
        bad = True
        # the newest earlier file itself is gone / the newest are there but fewer than N-1 of them
        kind = 'newest-removed' if keep[-1] in lost else 'fewer-than-N-kept'
        part.violation(f'C20:rollover:{kind}:{fclass}', stepcase,
                       f'{what}; the {ndays - 1} newest earlier files {keep} must be kept, removed: {lost}')
    lost_foreign = sorted(n for n in removed if not DATED.match(n))
    if lost_foreign and ndays:
        bad = True
        for n in lost_foreign:
            where = 'sorting-before-the-log-files' if n < ROOT + '-' else 'sorting-after-the-log-files'
            kind = 'foreign' if n not in PREFIXED else 'root-prefixed-foreign'
            part.violation(f'C20:rollover:{kind}-{FOREIGN.get(n, "file")}-removed:{where}', stepcase,
                           f'{what}; entries that are no log files of this handler were removed: {lost_foreign}')
    if bad:
        return 'VIOLATION'
    left = removable & after
    label = 'nothing-to-remove' if not removable else 'older-removed' if not left else 'older-kept'
    if exc is not None:
        label += f'-raises-{type(exc).__name__}'
    return label


def run_records(part, tmp, window, present, foreign, ndays, history, serial):
    """record histories through the production path only (handler.emit; the real emit decides when to roll over):
    history = [(gap in days, number of records), ...]; the handler starts on the last window day and writes one record;
    then for every step the virtual clock advances by the gap and the records are written one by one.  After EVERY
    record: F1 + every record written so far is still in its file (for the files that have to be there).  A gap of
    g >= 2 days makes mlzlog roll over g times in a row, once per record, to the same file."""
    case = {'kind': 'records', 'window': window, 'present': list(present), 'foreign': list(foreign), 'max_days': ndays,
            'history': [list(h) for h in history], 'mode': 'records'}
    part.evaluations += 1
    part.states += 1
    if ndays and any(g > 1 and n > 1 for g, n in history):
        part.nontrivial += 1
    logdir = os.path.join(tmp, f'rec{serial}')
    directory = os.path.join(logdir, ROOT)
    os.makedirs(directory)
    contents = {}
    for i in present:
        name = f'{ROOT}-{day_name(i)}.log'
        contents[name] = [f'old log of day {i}']
        with open(os.path.join(directory, name), 'w') as f:
            f.write(f'old log of day {i}\n')
    for name in foreign:
        path = os.path.join(directory, name)
        if FOREIGN[name] == 'dir':
            os.mkdir(path)
            with open(os.path.join(path, 'inside.log'), 'w') as f:
                f.write('x\n')
        else:
            with open(path, 'w') as f:
                f.write('foreign\n')
    today = window - 1
    VT.set_day(today)
    handler = frappy.logging.LogfileHandler(logdir, ROOT, max_days=ndays)
    labels = []
    nrec = 0
    try:
        for gap, count in [(0, 1)] + list(history):
            today += gap
            VT.set_day(today)
            for _ in range(count):
                before = listing(directory)
                text = f'record {nrec + 1} written on day {today}'
                contents.setdefault(f'{ROOT}-{day_name(today)}.log', []).append(text)
                part.transitions += 1
                handler.emit(make_record(text))
                part.traces += 1
                label = judge_rotation(part, case, directory, before, today, ndays, nrec, text, None, contents, 'record')
                nrec += 1
                labels.append(label)
                if label.startswith('VIOLATION'):
                    break
            if labels[-1].startswith('VIOLATION'):
                break
    finally:
        handler.close()
        shutil.rmtree(logdir, ignore_errors=True)
    gaps = 'gap>=2-then-several-records' if any(g > 1 and n > 1 for g, n in history) else 'no-repeated-rollover'
    part.outcomes[f'records:{gaps}:N={"0" if not ndays else "1" if ndays == 1 else ">1"}:' + labels[-1]] += 1
    if part.evaluations % 499 == 1:
        part.sample({'sub': 'records', 'dated files (day index)': list(present), 'foreign': list(foreign), 'max_days': ndays,
                     'history (gap days, records)': [list(h) for h in history], 'after each record': labels})


RECORD_STEPS = [(g, n) for g in (1, 2, 3) for n in (1, 2, 3)]


def records_cases(tier):
    window = 6 if tier == 'quick' else 7
    base4 = BASE_FOREIGN
    dirs = [(), tuple(range(window)), tuple(range(0, window, 2))]
    foreigns = [(), tuple(base4), tuple(PREFIXED)]
    depth = 2
    if tier != 'quick':
        dirs += [(window - 1,), (0,), tuple(range(window - 2, window))]
        foreigns += [('zzz.txt',), ('comlog',)]
        depth = 3
    return window, dirs, foreigns, depth


def records_shard(shard):
    _, ndays, di, fi = shard
    part = core.Part()
    window, dirs, foreigns, depth = records_cases(core.TIER)
    tmp = tempfile.mkdtemp(prefix='vf-c20-')
    serial = 0
    try:
        for history in itertools.product(RECORD_STEPS, repeat=depth):
            serial += 1
            run_records(part, tmp, window, dirs[di], foreigns[fi], ndays, history, serial)
    finally:
        shutil.rmtree(tmp, ignore_errors=True)
    return part


def rotation_cases(tier):
    window = 6 if tier == 'quick' else 7
    names = [n for n in FOREIGN if n not in PREFIXED]
    pre = list(PREFIXED)
    if tier == 'quick':
        base4 = BASE_FOREIGN
        foreigns = [()] + [(n,) for n in base4] + [tuple(base4)] + [(n,) for n in pre[:4]] + [tuple(pre)]
        modes = ['direct']
    else:
        foreigns = [c for r in range(len(names) + 1) for c in itertools.combinations(names, r)]
        foreigns += [(n,) for n in pre] + [tuple(pre), tuple(BASE_FOREIGN + pre)]
        modes = ['direct', 'jump2', 'twice', 'via-emit']
    return window, foreigns, modes


def rotation_shard(shard):
    _, ndays, mode, fchunk = shard
    part = core.Part()
    window, foreigns, _ = rotation_cases(core.TIER)
    tmp = tempfile.mkdtemp(prefix='vf-c20-')
    serial = 0
    try:
        for foreign in foreigns[fchunk::ROT_CHUNKS]:
            for r in range(window + 1):
                for present in itertools.combinations(range(window), r):
                    for mtimes in (MTIMES if not foreign and present else MTIMES[:1]):
                        serial += 1
                        run_rotation(part, tmp, window, present, foreign, ndays, mode, serial, mtimes)
    finally:
        shutil.rmtree(tmp, ignore_errors=True)
    return part


ROT_CHUNKS = 4
MTIMES = ['as-created', 'reversed', 'touched-later']     # modification times of the files found at start

# ---------------------------------------------------------------------------------------------------------------


def bounds(tier):
    if tier == 'quick':
        return dict(nconn=2, symmetric=False, hist_depth=2, reduced_depth=3, redundant_full=False, per_shard=12)
    return dict(nconn=3, symmetric=True, hist_depth=3, reduced_depth=4, redundant_full=True, per_shard=24)


def run(ctx):
    b = bounds(ctx.tier)
    only = getattr(ctx, 'only', None) or set()

    def want(name):
        return not only or name in only

    info = {}
    if want('bfs'):
        order, depth, ntrans, open_ = reference_bfs(b['nconn'], b['symmetric'])
        if open_:
            raise core.Inconclusive('reference exploration did not close')
        n = b['per_shard']
        shards = [('bfs', b['nconn'], order[i:i + n]) for i in range(0, len(order), n)]
        ctx.pmap(bfs_shard, shards, name='bfs')
        info.update(bfs_states=len(order), bfs_depth_to_closure=depth, bfs_connections=b['nconn'],
                    bfs_symmetry_reduced=b['symmetric'], reference_transitions=ntrans)
        if ctx.tier != 'quick':
            # the unreduced 2-connection graph as well (no symmetry argument needed there)
            order2, depth2, _, _ = reference_bfs(2, False)
            ctx.pmap(bfs_shard, [('bfs', 2, order2[i:i + n]) for i in range(0, len(order2), n)], name='bfs2')
            info.update(bfs2_states=len(order2), bfs2_depth_to_closure=depth2)
    if want('redundant'):
        order2, _, _, _ = reference_bfs(2, False)
        n = 6
        ctx.pmap(redundant_shard, [('redundant', 2, order2[i:i + n], b['redundant_full']) for i in range(0, len(order2), n)],
                 name='redundant')
        info.update(redundant_states=len(order2), redundant_all_operations=b['redundant_full'])
    if want('histories'):
        firsts = ops_for(initial(2), True)
        ctx.pmap(histories_shard, [('histories', 2, op, b['hist_depth'], False, 1) for op in firsts], name='histories')
        info.update(history_alphabet=len(firsts), history_depth=b['hist_depth'])
        rfirsts = reduced_ops(initial(2))
        ctx.pmap(histories_shard, [('histories', 2, op, b['reduced_depth'], True, b['hist_depth'] + 1) for op in rfirsts],
                 name='histories-reduced')
        info.update(reduced_history_alphabet=len(rfirsts), reduced_history_depth=b['reduced_depth'])
    if want('hidden'):
        # the same explorations on a node whose second module is not exported (addressed by name; see PROFILES)
        dot_hidden = use_profile('hidden')
        try:
            order_h, depth_h, _, open_ = reference_bfs(2, False)
            if open_:
                raise core.Inconclusive('reference exploration (hidden module) did not close')
            n = b['per_shard']
            shards = [('bfs', dot_hidden, ('bfs', 2, order_h[i:i + n])) for i in range(0, len(order_h), n)]
            firsts = ops_for(initial(2), True)
            shards += [('histories', dot_hidden, ('histories', 2, op, b['hist_depth'], False, 1)) for op in firsts]
            if ctx.tier != 'quick':
                shards += [('redundant', dot_hidden, ('redundant', 2, order_h[i:i + 6], False)) for i in range(0, len(order_h), 6)]
        finally:
            use_profile('plain')
        ctx.pmap(hidden_shard, shards, name='hidden')
        info.update(hidden_module_states=len(order_h), hidden_module_depth_to_closure=depth_h,
                    dot_addresses_modules_outside_the_description=bool(dot_hidden))
    if want('rotation'):
        window, foreigns, modes = rotation_cases(ctx.tier)
        ctx.pmap(rotation_shard, [('rotation', n, mode, ch) for n in range(8) for mode in modes for ch in range(ROT_CHUNKS)],
                 name='rotation')
        info.update(rotation_window_days=window, rotation_foreign_sets=len(foreigns), rotation_modes=modes)
    if want('records'):
        window, dirs, foreigns, depth = records_cases(ctx.tier)
        ctx.pmap(records_shard, [('records', n, di, fi) for n in range(8) for di in range(len(dirs)) for fi in range(len(foreigns))],
                 name='records')
        info.update(record_history_steps=depth, record_history_alphabet=len(RECORD_STEPS), record_directories=len(dirs),
                    record_foreign_sets=len(foreigns))
    ctx.rule = (
        f'routing/bfs: every abstract state (level table of {b["nconn"]} connections x 2 modules + disconnected flags'
        f'{", one representative per permutation class of connections" if b["symmetric"] else ""}) reachable in the reference '
        'model x every operation {logging <m1|m2|.> <6 levels>, 7 invalid levels x <m1|.>, unknown module, *IDN?, disconnect} of '
        'every connected connection, each executed on a freshly built real node after the shortest history to the state, '
        'followed by a probe emitting all 2 modules x 5 record levels and comparing the deliveries to all connections; '
        'routing/redundant: for every abstract state of 2 connections, every operation that leaves the reference table unchanged '
        f'({"all" if b["redundant_full"] else "same-level sets, no-op *IDN?, one refused level, unknown module"}) inserted after the '
        f'shortest history, then every {"operation" if b["redundant_full"] else "switch-off / *IDN? / disconnect operation"} + probe: the '
        'state reached by two different histories must have the same futures (differential check behind the state merging); '
        f'routing/histories: every operation sequence (emit included) of length <= {b["hist_depth"]} on 2 connections, no merging, and '
        f'every sequence of length {b["hist_depth"] + 1}..{b["reduced_depth"]} over the alphabet without emits and with one '
        'representative refused level, each followed by the full probe; '
        'routing/hidden: bfs to closure and the unmerged histories again on a node whose second module is configured with '
        'export=False (enabled by name; *IDN? / disconnect must switch it off; whether `.` addresses it is asked from the '
        'implementation once and then demanded consistently); '
        'rotation: every subset of dated log files in the window x foreign entry sets x max_days 0..7 x 3 rollovers; '
        f'records: every history of {2 if ctx.tier == "quick" else 3} steps (gap of 1..3 days, then 1..3 records) written through the real '
        'emit on a virtual clock x max_days 0..7 x start directories x foreign sets, judged after every record (a gap of g days makes '
        'g rollovers in a row to the same file). '
        'evaluations = (state, operation) transitions executed on the real node and probed + histories + scratch directories; distinct_nontrivial = bfs transitions that '
        'change the table or must be refused + histories mixing operation classes + rotations with retention and a non-empty '
        'directory; states = abstract states explored + histories + directories; transitions = operations applied to the real '
        'node / rollovers and emits on the real handler; traces = emitted records resp. rollovers compared with the reference')
    ctx.coverage.update(bound_completed=f'routing: closure on {b["nconn"]} connections x 2 modules; one redundant operation before every '
                                        f'final operation from every 2-connection state; histories depth {b["hist_depth"]} '
                                        f'(reduced alphabet: {b["reduced_depth"]}); '
                                        f'rotation: {6 if ctx.tier == "quick" else 7}-day window, max_days 0..7, 3 rollovers', **info)
    ctx.assume('connections are interchangeable in the code under test (used for the symmetry reduction with 3 connections only)',
               'records are emitted on the modules\' own loggers (children like <module>.io are not covered)',
               'numeric and upper-case level names are not in the catalogue',
               'rotation: all pre-existing dated files are older than the handler\'s start day (no clock set back); one record '
               'is written before the first rollover (mlzlog\'s doRollover needs an open stream)',
               'a real file system under tempfile.mkdtemp() is used for rotation (removed afterwards)')
    if not only or 'conc' in only:
        from vf.harness import c20conc
        c20conc.run_conc(ctx)       # disconnect / logging request / log record at the same time (schedx)


def replay(case):
    if case.get('kind') == 'conc':
        from vf.harness import c20conc
        return c20conc.replay_conc(case)
    part = core.Part()
    if case['kind'] == 'records':
        tmp = tempfile.mkdtemp(prefix='vf-c20-')
        try:
            run_records(part, tmp, case['window'], tuple(case['present']), tuple(case['foreign']), case['max_days'],
                        [tuple(h) for h in case['history']], 1)
        finally:
            shutil.rmtree(tmp, ignore_errors=True)
    elif case['kind'] == 'rotation':
        tmp = tempfile.mkdtemp(prefix='vf-c20-')
        try:
            run_rotation(part, tmp, case['window'], tuple(case['present']), tuple(case['foreign']), case['max_days'],
                         case['mode'], 1, case.get('mtimes', 'as-created'))
        finally:
            shutil.rmtree(tmp, ignore_errors=True)
    else:
        ops = tuple(tuple(op) for op in case['ops'])
        use_profile(case.get('profile', 'plain'), case.get('dot_hidden'))
        try:
            run_history(part, case['nconn'], ops, judge_all=True, sigtag=case.get('sigtag', ''))
        finally:
            use_profile('plain')
    return part
