"""C08 - activation and deactivation boundaries are exact under any interleaving.

schedx: a real node; T1 = the real TCPRequestHandler fed a script of activate / deactivate / *IDN? requests (EOF =
disconnect) on a fake socket; T2 = a driver thread changing the cache (attribute assignment, read, error
announcement); optional observer connection c3, globally active throughout.  All schedules with <= bound preemptions,
scheduling points at every lock operation, recv and send (sync level) and additionally at every source line of the
dispatcher's activate / deactivate / broadcast path and Module.announceUpdate (line level).

Oracle (reference subscription table of DESIGN C08): a connection receives (m, p) iff it holds the global scope, scope m
or scope m:p; `deactivate m` also drops m:*; bare `deactivate` drops only the global scope; *IDN? and disconnect drop
everything.  Per complete schedule, on the event log (cache changes are logged by a parameter callback inside the update
funnel, sends by the fake socket):
  snapshot   between an activate request and its `active` reply there is >= 1 update for every exported parameter newly in
             scope, and each carries a cache state that parameter held during that window
  complete   every cache change whose notification ran completely while the parameter was subscribed (after the `active`
             reply, finished before the arrival of the request that unsubscribes it) is delivered
  order      the updates of one parameter arrive in cache order and carry only states the cache held (a stale snapshot
             overtaking a fresh update is a violation: the last message would differ from the cache at quiescence)
  quiet      at the end the last message of every still subscribed parameter equals the node cache
  stop       after the reply that unsubscribes a parameter (inactive / ident reply) or after the disconnect nothing of that
             scope is sent to the connection
  others     the observer's stream equals the complete cache-change sequence, whatever T1 does
Oracle calibration: during the processing of a request that changes the scope (between its arrival and its reply) updates
of the affected parameters may or may not be delivered; duplicates of the same state are allowed.
"""
import json

from vf import core

PROPERTY = 'C08'

SCRIPTS = {
    'global-stay': ['activate'],
    'global-deact': ['activate', 'deactivate'],
    'module-deact': ['activate m', 'deactivate m'],
    'param-deact': ['activate m:value', 'deactivate m:value'],
    'param-deact-by-module': ['activate m:value', 'deactivate m'],
    'global-ident': ['activate', '*IDN?'],
    'module-eof': ['activate m'],
    'global+param-deact-global': ['activate', 'activate m:value', 'deactivate'],
    'custom-param': ['activate m:_x', 'deactivate m:_x'],
    'module-ident-ping': ['activate m', '*IDN?', 'ping x'],
    'param-x2': ['activate m:value', 'activate m:_x', 'deactivate m:_x'],
}
OPS = {
    'value2': [['assign', 'm', 'value', 1.5], ['assign', 'm', 'value', 2.5]],
    'value+x': [['assign', 'm', 'value', 1.5], ['assign', 'm', 'x', 7]],
    'err-recover': [['error', 'm', 'value', 'boom'], ['assign', 'm', 'value', 3.5]],
    'read-x': [['read', 'm', 'x', None], ['assign', 'm', 'value', 4.5]],
}
SCRIPT_READS = {'m': {'x': [11, 12], 'value': [9.5]}}


def all_params(node):
    res = []
    for mname, mod in node.secnode.modules.items():
        for pobj in mod.parameters.values():
            if pobj.export:
                res.append(f'{mname}:{pobj.export}')
    return res


class RefTable:
    """reference subscription table of one connection"""
    def __init__(self):
        self.glob = False
        self.scopes = set()

    def apply(self, line):
        parts = line.split(' ')
        action, spec = parts[0], (parts[1] if len(parts) > 1 else '')
        if action == 'activate':
            if spec:
                self.scopes.add(spec)
            else:
                self.glob = True
        elif action == 'deactivate':
            if spec:
                self.scopes.discard(spec)
                if ':' not in spec:
                    self.scopes = {s for s in self.scopes if not s.startswith(spec + ':')}
            else:
                self.glob = False
        elif action == '*IDN?':
            self.glob = False
            self.scopes.clear()

    def subscribed(self, p):
        return self.glob or p in self.scopes or p.split(':')[0] in self.scopes


def execute(case, prefix, collect=None):
    """one execution of the case under the given choice prefix; returns (Execution, violations list)"""
    from vf.engines import schedx
    from vf.harness import nodeconc as N
    kinds = None if case['level'] == 'line' else {'acquire', 'tryacquire', 'release', 'recv', 'send', 'send2', 'spawn', 'join',
                                                  'set', 'clear', 'wait', 'put', 'get', 'poll', 'sleep', 'yield'}
    sched = schedx.Scheduler(prefix, point_kinds=kinds, max_steps=5000)
    holder = {}

    def body():
        node = N.build_node(sched, SCRIPT_READS, modules=tuple(case.get('modules') or ('m',)),
                            classes={'m': N.MP} if case.get('prefix') else None)
        holder['node'] = node
        obs = None
        if case['observer']:
            obs = N.ObserverConn(sched, 'c3')
            node.dispatcher.add_connection(obs)
            node.request_msg(obs, ('activate', None, None))
            obs.lines.clear()
        holder['obs'] = obs
        done = []
        # the peer stays connected until the driver is through (so that "quiet" can be judged), except in the cases
        # that race the disconnect itself
        hold = not case.get('eof_race')
        hold2 = not case.get('eof_race2')
        sock = N.CoopSock(sched, 'c1', [(l + '\n').encode() for l in case['script']],
                          eof_when=(lambda: bool(done)) if hold else None)
        holder['sock'] = sock
        holder['hold'] = hold
        sched.log.append(('init', N.current_cache(node)))
        sched.begin()
        t1 = schedx.Thread(target=N.run_handler(node, sock), name='handler')
        ndrivers = 2 if case.get('ops2') else 1
        fin = []

        def driver(ops):
            def run():
                for op in ops:
                    N.driver_op(node, op)
                fin.append(1)
                if len(fin) == ndrivers:
                    done.append(1)
            return run
        t2 = schedx.Thread(target=driver(case['ops']), name='driver')
        ts = [t1, t2]
        if case.get('ops2'):
            ts.append(schedx.Thread(target=driver(case['ops2']), name='driver2'))
        if case.get('script2'):
            sock2 = N.CoopSock(sched, 'c2', [(l + '\n').encode() for l in case['script2']],
                               eof_when=(lambda: bool(done)) if hold2 else None)
            ts.append(schedx.Thread(target=N.run_handler(node, sock2), name='handler2'))
        for t in ts:
            t.start()
        for t in ts:
            t.join()
        holder['final'] = N.current_cache(node)
        holder['params'] = all_params(node)

    x = sched.run(body)
    node = holder.get('node')
    viol = judge(case, sched, x, holder)
    if node is not None:
        node.close()
    return x, viol, sched


def judge(case, sched, x, holder):
    from vf.harness import nodeconc as N
    viol = []
    if x.deadlock:
        return [('deadlock', x.deadlock)]
    if x.livelock:
        return [('livelock', x.livelock)]
    for t in x.threads:
        if t.exc is not None:
            viol.append((f'thread-{t.name}-died:{type(t.exc).__name__}', f'thread {t.name} ended with {t.exc!r}'))
    if viol:
        return viol
    log = sched.log
    params = holder['params']
    final = holder['final']
    # cache history per parameter: list of (logindex, key); index -1 = initial state
    init = next(e[1] for e in log if e[0] == 'init')
    hist = {p: [(-1, init[p])] for p in params}
    for i, e in enumerate(log):
        if e[0] == 'cache':
            hist[e[1]].append((i, e[2]))
    order = {p: {key: n for n, (_i, key) in enumerate(hist[p])} for p in params}
    for label, script in [('c1', case['script'])] + ([('c2', case['script2'])] if case.get('script2') else []):
        viol += judge_conn(label, script, log, params, hist, order, final, holder)
    # --- observer
    obs = holder.get('obs')
    if obs is not None:
        for p in params:
            got = [k[2] for k in (N.msg_key(l) for l in obs.lines) if k[0] == 'update' and k[1] == p]
            want = [key for _i, key in hist[p][1:]]
            if got != want:
                viol.append(('observer-stream-differs', f'observer got {p}: {got}, cache changes were {want}'))
    return viol


def judge_conn(conn, script, log, params, hist, order, final, holder):
    """the clauses of the oracle for one scripted connection"""
    from vf.harness import nodeconc as N
    viol = []
    req_idx = {}
    c1_events = []      # (logindex, kind, spec, key)
    late = []           # attempts on the closed socket
    for i, e in enumerate(log):
        if e[0] == 'req' and e[1] == conn:
            req_idx[e[2]] = i
        elif e[0] == 'send' and e[1] == conn:
            c1_events.append((i,) + N.msg_key(e[2]))
        elif e[0] == 'send-closed' and e[1] == conn:
            late.append((i,) + N.msg_key(e[2]))
    eof_idx = next((i for i, e in enumerate(log) if e[0] == 'eof' and e[1] == conn), None)
    closed_idx = next((i for i, e in enumerate(log) if e[0] == 'closed' and e[1] == conn), None)
    replies = [ev for ev in c1_events if ev[1] != 'update']
    if len(replies) != len(script):
        viol.append(('reply-count', f'{len(script)} requests but {len(replies)} replies: {[r[1:3] for r in replies]}'))
        return viol
    table = RefTable()
    must = {p: [] for p in params}        # intervals (a, b): cache changes logged inside must be delivered
    mustnot = {p: [] for p in params}     # intervals (a, b, cause, reply index of the unsubscribing request)
    cause = {p: ('never-subscribed', -1) for p in params}
    prev_reply = -1
    for k, line in enumerate(script):
        ri, rep = req_idx[k], replies[k]
        before = {p: table.subscribed(p) for p in params}
        table.apply(line)
        after = {p: table.subscribed(p) for p in params}
        for p in params:
            # the interval since the previous reply up to the arrival of this request was stable
            if before[p]:
                must[p].append((prev_reply, ri))
            else:
                mustnot[p].append((prev_reply, ri) + cause[p])
            if before[p] and not after[p]:
                cause[p] = ('ident' if line.startswith('*IDN') else 'inactive', rep[0])
            if before[p] != after[p]:
                pass        # fuzzy window ri..rep[0]: updates may or may not be delivered
            elif before[p]:
                must[p].append((ri, rep[0]))
            else:
                mustnot[p].append((ri, rep[0]) + cause[p])
            if line.startswith('activate') and after[p] and not before[p]:
                # snapshot: >= 1 update for p between request and reply, not older than the state at request arrival
                snaps = [ev for ev in c1_events if ev[1] == 'update' and ev[2] == p and ri < ev[0] < rep[0]]
                if not snaps:
                    viol.append(('snapshot-missing', f'{line!r}: no update for {p} before the active reply'))
                else:
                    at_arrival = max(n for n, (i, _k) in enumerate(hist[p]) if i < ri)
                    for ev in snaps:
                        n = order[p].get(ev[3])
                        if n is None:
                            viol.append(('snapshot-with-state-never-held', f'{line!r}: snapshot of {p} carries {ev[3]}, cache history {hist[p]}'))
                        elif n < at_arrival:
                            viol.append(('snapshot-older-than-request', f'{line!r}: snapshot of {p} carries {ev[3]}, older than the state at arrival'))
        prev_reply = rep[0]
    end = len(log)
    for p in params:
        if table.subscribed(p):
            must[p].append((prev_reply, eof_idx if eof_idx is not None else end))
        else:
            mustnot[p].append((prev_reply, end) + cause[p])
    for p in params:
        ups = [ev for ev in c1_events if ev[1] == 'update' and ev[2] == p]
        # stop: nothing of p is sent inside a must-not interval
        for ev in ups:
            for a, b, why, ridx in mustnot[p]:
                if a < ev[0] < b:
                    n = order[p].get(ev[3])
                    ci = hist[p][n][0] if n is not None else None
                    if ci is not None and ci < ridx:
                        # the change was made before the unsubscribing reply: a broadcast in flight across it
                        viol.append((f'update-in-flight-delivered-after-{why}',
                                     f'update of {p} ({ev[3]}, cache change at log index {ci}) was sent to {conn} at {ev[0]}, after the '
                                     f'{why} reply at {ridx}'))
                    else:
                        viol.append((f'update-for-change-made-after-{why}',
                                     f'update of {p} ({ev[3]}, cache change at {ci}) sent to {conn} at {ev[0]} although it is not '
                                     f'subscribed since the {why} reply at {ridx}'))
                    break
        # after the disconnect: no send attempt for a change made after the socket was closed
        for ev in late:
            if ev[1] == 'update' and ev[2] == p:
                n = order[p].get(ev[3])
                ci = hist[p][n][0] if n is not None else None
                if ci is not None and closed_idx is not None and ci > closed_idx:
                    viol.append(('update-for-change-made-after-disconnect',
                                 f'update of {p} ({ev[3]}, cache change at {ci}) attempted on {conn} at {ev[0]}, closed at {closed_idx}'))
        # complete: every cache change inside a must interval is delivered afterwards
        for ci, key in hist[p][1:]:
            # the notification of this change has returned at log index di; a change whose notification was still under way
            # when the unsubscribing request arrived is concurrent with it (may or may not be delivered)
            di = next((i for i in range(ci + 1, len(log)) if log[i][0] == 'bcast-done' and log[i][1] == p), len(log))
            if any(a < ci and di < b for a, b in must[p]):
                # (an attempt that hit the socket already closed by the peer's disconnect counts: nothing can be delivered then)
                if not any(ev[0] > ci and ev[3] == key for ev in ups) and \
                        not any(ev[1] == 'update' and ev[2] == p and ev[3] == key for ev in late):
                    viol.append(('update-lost', f'cache change of {p} to {key} at {ci} while subscribed was never delivered to {conn}'))
        # order / no invented state
        last = -1
        for ev in ups:
            n = order[p].get(ev[3])
            if n is None:
                viol.append(('update-with-state-never-held', f'{conn} got {p} = {ev[3]} which the cache never held ({hist[p]})'))
                break
            if n < last:
                viol.append(('stale-update-after-newer', f'{conn} got {p} states in order {[e[3] for e in ups]} but the cache went {[k for _i, k in hist[p]]}'))
                break
            last = n
        # quiet
        if table.subscribed(p) and (eof_idx is None or holder.get('hold')) and (ups[-1][3] if ups else None) != final[p]:
            viol.append(('last-message-differs-from-cache', f'{p}: last message {ups[-1][3]} but cache {final[p]}'))
    return viol


def states_in_window(h, a, b):
    """cache states a parameter held between log indices a and b"""
    res = []
    cur = None
    for i, key in h:
        if i <= a:
            cur = key
        elif i < b:
            res.append(key)
    return [cur] + res


def why_unsubscribed(script, log, a, closed_idx):
    if closed_idx is not None and a >= closed_idx:
        return 'disconnect'
    e = log[a] if 0 <= a < len(log) else None
    if e is not None and e[0] == 'send':
        txt = e[2].decode('utf-8', 'replace')
        if txt.startswith('inactive'):
            return 'inactive'
        if txt.startswith('ISSE'):
            return 'ident'
    return 'unsubscribed'


def cases(tier):
    res = []
    for sname in SCRIPTS:
        for oname in OPS:
            observer = (sname in ('global-deact', 'module-eof')) and oname == 'value2'
            res.append({'name': f'{sname}/{oname}', 'script': SCRIPTS[sname], 'ops': OPS[oname], 'observer': observer,
                        'level': 'sync', 'bound': 2 if tier == 'quick' else 3, 'eof_race': sname in ('module-eof', 'global-stay')})
            if sname == 'global-stay':
                res.append({'name': f'{sname}/{oname}/hold', 'script': SCRIPTS[sname], 'ops': OPS[oname], 'observer': False,
                            'level': 'sync', 'bound': 2 if tier == 'quick' else 3})
    # two scripted connections with different scopes (other connections' scopes are unaffected)
    for name, s1, s2 in [('param|global-deact', ['activate m:value'], ['activate', 'deactivate']),
                         ('module|param-ident', ['activate m', 'deactivate m'], ['activate m:value', '*IDN?']),
                         ('global|global', ['activate', 'deactivate'], ['activate'])]:
        res.append({'name': f'two:{name}/value2', 'script': s1, 'script2': s2, 'ops': OPS['value2'], 'observer': False,
                    'level': 'sync', 'bound': 1 if tier == 'quick' else 2})
    # event names that are string prefixes of each other (m:_x / m:_x2, m / m2): scopes are matched exactly
    pre = {'x2-twice': [['assign', 'm', 'x2', 5], ['assign', 'm', 'x2', 6]],
           'm2-value2': [['assign', 'm2', 'value', 1.5], ['assign', 'm2', 'value', 2.5]],
           'x-then-x2': [['assign', 'm', 'x', 7], ['assign', 'm', 'x2', 8]]}
    for name, script, ops, modules in [
            ('param', ['activate m:_x', 'activate m:_x2', 'deactivate m:_x'], 'x2-twice', ['m']),
            ('param-rev', ['activate m:_x2', 'activate m:_x', 'deactivate m:_x2'], 'x-then-x2', ['m']),
            ('module', ['activate m2', 'activate m', 'deactivate m'], 'm2-value2', ['m', 'm2']),
            ('module-param', ['activate m2:value', 'activate m', 'deactivate m'], 'm2-value2', ['m', 'm2'])]:
        res.append({'name': f'prefix:{name}/{ops}', 'script': script, 'ops': pre[ops], 'observer': False, 'prefix': True,
                    'modules': modules, 'level': 'sync', 'bound': 1 if tier == 'quick' else 2})
    # a disconnect (lock-free remove_connection) racing with another connection's activate of the same scope
    for name, s1, s2 in [('param', ['activate m:value'], ['activate m:value']),
                         ('module', ['activate m'], ['activate m']),
                         ('param-vs-module', ['activate m:value'], ['activate m'])]:
        res.append({'name': f'eof-vs-activate:{name}/value2/line', 'script': s1, 'script2': s2, 'ops': OPS['value2'],
                    'observer': False, 'eof_race': True, 'level': 'line', 'bound': 1 if tier == 'quick' else 2})
    # two driver threads updating the same parameter (a poll thread and an asynchronous device callback)
    for sname in (['global-stay', 'param-deact'] if tier == 'quick' else ['global-stay', 'param-deact', 'module-deact', 'global-ident']):
        res.append({'name': f'{sname}/two-drivers', 'script': SCRIPTS[sname], 'ops': [['assign', 'm', 'value', 1.5]],
                    'ops2': [['assign', 'm', 'value', 2.5], ['assign', 'm', 'x', 7]], 'observer': sname == 'global-stay', 'level': 'sync',
                    'bound': 2 if tier == 'quick' else 3})
        res.append({'name': f'{sname}/two-drivers/line', 'script': SCRIPTS[sname], 'ops': [['assign', 'm', 'value', 1.5]],
                    'ops2': [['assign', 'm', 'value', 2.5]], 'observer': False, 'level': 'line', 'bound': 1 if tier == 'quick' else 2})
    # line level in the dispatcher / funnel
    line_scripts = ['global-deact', 'param-deact-by-module', 'global-ident', 'module-eof'] if tier == 'quick' else list(SCRIPTS)
    for sname in line_scripts:
        for oname in (['value2'] if tier == 'quick' else ['value2', 'err-recover']):
            res.append({'name': f'{sname}/{oname}/line', 'script': SCRIPTS[sname], 'ops': OPS[oname], 'observer': False,
                        'level': 'line', 'bound': 1 if tier == 'quick' else 2, 'eof_race': sname == 'module-eof'})
    return res


def explore_case(case, prefix, part):
    from vf.engines import schedx
    from vf.harness import nodeconc as N
    if case['level'] == 'line':
        schedx.trace_lines(N.all_dispatcher_functions())
    else:
        schedx.untrace_all()
    fingerprints = set()

    def ex(pfx):
        x, viol, sched = execute(case, pfx)
        part.evaluations += 1
        part.traces += 1
        part.transitions += x.steps
        fingerprints.update(x.fingerprints)
        out = summarize(sched.log)
        part.outcomes[out] += 1
        for sig, detail in viol:
            part.violation(f'C08:{sig}', dict(case, prefix=list(x.choices)),
                           f'case {case["name"]} schedule {x.choices}: {detail}')
        if part.evaluations % 997 == 1:
            part.sample({'case': case['name'], 'schedule': list(x.choices), 'steps': x.steps,
                         'c1_stream': [e[2].decode('utf-8', 'replace').strip()[:60] for e in sched.log if e[0] == 'send' and e[1] == 'c1'][:12]})
        return x
    n, capped = schedx.explore(ex, case['bound'], prefix=prefix)
    part.fps |= fingerprints
    part.extra['schedules'] += n
    part.extra['n:' + case['name']] += n
    return n


def summarize(log):
    """observable outcome of one schedule: the c1 stream"""
    return hash(tuple(e[2] for e in log if e[0] == 'send' and e[1] == 'c1'))


def shard_fn(shard):
    case, prefix = shard
    part = core.Part()
    explore_case(case, prefix, part)
    part.nontrivial = part.evaluations
    return part


def root_fn(case):
    """runs the default schedule twice (determinism proof) and returns the first-level prefixes"""
    from vf.engines import schedx
    from vf.harness import nodeconc as N
    if case['level'] == 'line':
        schedx.trace_lines(N.all_dispatcher_functions())
    else:
        schedx.untrace_all()
    x1, _v1, s1 = execute(case, [])
    x2, _v2, s2 = execute(case, [])
    if x1.trace != x2.trace or s1.log != s2.log:
        raise core.Inconclusive(f'case {case["name"]}: the default schedule is not deterministic')
    part = core.Part()
    part.extra['points_in_default_schedule'] = len(x1.points)
    part.extra['pre_window_steps'] = x1.pre_window_steps
    part.data.append([case['name'], schedx.first_level(x1, case['bound'], 0)])
    return part


def run(ctx):
    cs = cases(ctx.tier)
    roots = ctx.pmap(root_fn, cs, name='determinism')
    byname = {c['name']: c for c in cs}
    # distribute: every first-level prefix is the root of a sub-tree (explored completely by one worker); the root
    # execution itself is the shard with prefix None
    shards = []
    for name, prefixes in roots.data:
        shards.append((byname[name], None))
        for p in prefixes:
            shards.append((byname[name], p))
    ctx.total.data.clear()
    ctx.pmap(sub_fn, shards, name='schedules')
    ctx.rule = ('for every case (request script x driver operations x observer) all thread schedules with <= bound preemptions '
                '(iterative context bounding, DFS over choice sequences; sync level: points at every lock operation, recv and '
                'send; line level: additionally every source line of the dispatcher activate/deactivate/broadcast path and '
                'Module.announceUpdate); evaluations = complete schedules executed and judged; states = distinct fingerprints '
                '(thread positions) at scheduling points; transitions = scheduling steps; distinct_outcomes = distinct c1 streams')
    ctx.coverage.update(cases=len(cs), bound_completed={c['name']: c['bound'] for c in cs}, scripts=SCRIPTS)
    ctx.assume('CPython; scheduling granularity: synchronisation operations + fake socket I/O (sync level), plus source lines of the '
               'listed mechanism functions (line level); computation is instantaneous in virtual time',
               '2 racing threads (+ observer connection); larger populations are not explored',
               'distinct values per cache change (so messages map uniquely onto cache states)')


def sub_fn(shard):
    case, prefix = shard
    part = core.Part()
    if prefix is None:
        # the root execution only (its sub-trees are separate shards)
        from vf.engines import schedx
        from vf.harness import nodeconc as N
        if case['level'] == 'line':
            schedx.trace_lines(N.all_dispatcher_functions())
        else:
            schedx.untrace_all()
        x, viol, sched = execute(case, [])
        part.evaluations += 1
        part.traces += 1
        part.transitions += x.steps
        part.fps |= x.fingerprints
        part.outcomes[summarize(sched.log)] += 1
        for sig, detail in viol:
            part.violation(f'C08:{sig}', dict(case, prefix=list(x.choices)),
                           f'case {case["name"]} schedule {x.choices}: {detail}')
    else:
        explore_case(case, prefix, part)
    part.nontrivial = part.evaluations
    return part


def replay(case):
    from vf.engines import schedx
    from vf.harness import nodeconc as N
    part = core.Part()
    if case['level'] == 'line':
        schedx.trace_lines(N.all_dispatcher_functions())
    x, viol, sched = execute(case, case['prefix'])
    part.evaluations = 1
    for sig, detail in viol:
        part.violation(f'C08:{sig}', case, detail)
    part.notes.append('\n'.join(repr(e)[:160] for e in sched.log))
    return part
