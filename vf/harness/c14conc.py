"""C14 concurrent part - start / stop issued from a second thread between any two steps of a cycle.

schedx: the real frappy.lib.statemachine.StateMachine (its lock rebound to the cooperative one).  T1 = the cycling thread
(as the poll thread does) running 5 cycles; T2 (and T3) issue start / stop requests; scheduling points at every lock
operation and at every source line of cycle, _cleanup, _new_state, start and stop; all schedules with <= bound
preemptions.  After the threads are joined the main thread runs further cycles until nothing changes (quiescence).
State functions: A, B, C retry for ever and record (init flag, attributes seen); the cleanup function K of the first run
returns L, L retries once and then finishes - a cleanup sequence spanning two cycles.

Oracle (trace monitors, valid for every interleaving):
  no call of cycle / start / stop raises
  the run of A is interrupted in every scenario: K is called exactly once, and from K's call until L has finished only L is
  called (the cleanup sequence is neither interrupted nor restarted); A is never called after K
  the first call of a state after it was entered sees init == True, later calls False
  last request wins: if the last request (program order of the requesting thread) is stop the machine is inactive at
  quiescence; if it is start(X, attr=n) the machine is in X and every call of X after that start took effect saw attr == n
  two requesting threads: the final state is the one of either order
"""
from vf import core

SCENARIOS = {
    'stop': [[['stop']]],
    'restart': [[['start', 'B', 7]]],
    'restart-stop': [[['start', 'B', 7], ['stop']]],
    'stop-restart': [[['stop'], ['start', 'B', 7]]],
    'restart-restart': [[['start', 'B', 7], ['start', 'C', 8]]],
    'stop|restart': [[['stop']], [['start', 'B', 7]]],
    'restart|restart': [[['start', 'B', 7]], [['start', 'C', 8]]],
}


MODULE_SCENARIOS = {
    # requests of the second thread on an idle module / on a module running `slow`
    'mod:start-quick': {'pre': [], 'req': [['start', 'quick']]},
    'mod:start-slow': {'pre': [], 'req': [['start', 'slow']]},
    'mod:start-quick-twice': {'pre': [], 'req': [['start', 'quick'], ['start', 'quick']]},
    'mod:restart-quick': {'pre': ['slow'], 'req': [['start', 'quick']]},
    'mod:stop': {'pre': ['slow'], 'req': [['stop']]},
    'mod:start-stop': {'pre': [], 'req': [['start', 'slow'], ['stop']]},
}
_mod = {}


def module_class():
    if _mod:
        return _mod['cls']
    from frappy.core import Drivable, Parameter, BUSY, IDLE
    from frappy.datatypes import StatusType
    from frappy.states import HasStates, Retry, status_code

    class QMod(HasStates, Drivable):
        status = Parameter(datatype=StatusType(Drivable))

        def read_value(self):
            return 0.0

        def quick(self, sm):                 # finishes within its first cycle
            return self.final_status(IDLE, 'finished')

        @status_code(BUSY, 'slow')
        def slow(self, sm):                  # needs three cycles
            if sm.init:
                sm.n = 0
            sm.n += 1
            if sm.n < 3:
                return Retry
            return self.final_status(IDLE, 'done')
    _mod.update(cls=QMod, BUSY=BUSY)
    return QMod


def execute_module(case, prefix):
    """HasStates + Drivable on a real node: T1 = poll thread (doPoll x 4), T2 = requests (start_machine / stop_machine)"""
    from vf.engines import schedx
    from vf import nodes
    import frappy.states  # noqa: F401
    import frappy.lib.statemachine  # noqa: F401
    from frappy.modulebase import PollInfo
    schedx.install()
    kinds = None if case['level'] == 'line' else {'acquire', 'tryacquire', 'release', 'spawn', 'join', 'yield', 'set', 'clear', 'wait'}
    sched = schedx.Scheduler(prefix, point_kinds=kinds, max_steps=12000)
    errors = []
    out = {}
    sc = MODULE_SCENARIOS[case['name']]

    def body():
        node = nodes.Node({'m': {'cls': module_class()}})
        out['node'] = node
        m = node.secnode.modules['m']
        m.pollInfo = PollInfo(m.pollinterval, schedx.Event())
        for f in sc['pre']:
            m.start_machine(getattr(m, f))
            m.doPoll()
        sched.begin()

        def poller():
            for _ in range(4):
                try:
                    m.doPoll()
                except Exception as e:      # noqa
                    errors.append(('doPoll', repr(e)))

        def requester():
            for op in sc['req']:
                try:
                    if op[0] == 'start':
                        m.start_machine(getattr(m, op[1]))
                    else:
                        m.stop_machine()
                except Exception as e:      # noqa
                    errors.append((op[0], repr(e)))
        ts = [schedx.Thread(target=poller, name='poller'), schedx.Thread(target=requester, name='req')]
        for t in ts:
            t.start()
        for t in ts:
            t.join()
        for _ in range(8):                  # run to quiescence
            try:
                m.doPoll()
            except Exception as e:          # noqa
                errors.append(('doPoll', repr(e)))
        sm = m._state_machine
        out['active'] = sm.is_active
        out['sm_status'] = tuple(sm.status)
        out['status'] = tuple(m.status)
    x = sched.run(body)
    viol = []
    if x.deadlock:
        viol = [('conc:mod:deadlock', x.deadlock)]
    elif x.livelock:
        viol = [('conc:mod:livelock', x.livelock)]
    else:
        for t in x.threads:
            if t.exc is not None:
                viol.append((f'conc:mod:thread-died:{type(t.exc).__name__}', f'{t.name}: {t.exc!r}'))
        for what, e in errors:
            viol.append((f'conc:mod:{what}-raised', e))
        if not viol:
            busy = _mod['BUSY']
            if out['active']:
                viol.append(('conc:mod:machine-still-active-at-quiescence', f'{out}'))
            else:
                last = sc['req'][-1]
                for key in ('sm_status', 'status'):
                    code = int(out[key][0])
                    if busy <= code < busy + 100:
                        viol.append((f'conc:mod:busy-status-after-the-machine-finished:last-request-{last[0]}',
                                     f'the machine is inactive but {"the cached status" if key == "status" else "the status of the machine"} '
                                     f'is {out[key]} (requests {sc["req"]} on a module {"running slow" if sc["pre"] else "at rest"})'))
                        break
                # after a start the run of the most recently requested state decides the final status; a stop request on
                # a machine that is not running is documented to do nothing (the run's own final status stays)
                if not viol and last[0] == 'start' and out['status'][1] != {'quick': 'finished', 'slow': 'done'}[last[1]]:
                    viol.append(('conc:mod:final-status-of-another-run', f'last request {last}: final status {out["status"]}'))
                if not viol and last[0] == 'stop' and out['status'][1] not in ('stopped', 'done', 'finished'):
                    viol.append(('conc:mod:transient-status-text-left-after-the-machine-finished',
                                 f'the machine is inactive, requests {sc["req"]}: final status {out["status"]}'))
    if out.get('node') is not None:
        out['node'].close()
    return x, viol, [out.get('status'), out.get('sm_status'), out.get('active')]


def execute(case, prefix):
    if case['name'].startswith('mod:'):
        return execute_module(case, prefix)
    from vf.engines import schedx
    import frappy.lib.statemachine as SM
    schedx.install()
    kinds = None if case['level'] == 'line' else {'acquire', 'tryacquire', 'release', 'spawn', 'join', 'yield'}
    sched = schedx.Scheduler(prefix, point_kinds=kinds, max_steps=8000)
    calls = []
    errors = []
    out = {}

    def A(sm):
        calls.append(('A', sm.init, None))
        return SM.Retry

    def B(sm):
        calls.append(('B', sm.init, getattr(sm, 'attr', None)))
        return SM.Retry

    def C(sm):
        calls.append(('C', sm.init, getattr(sm, 'attr', None)))
        return SM.Retry

    lcount = []

    def L(sm):
        calls.append(('L', sm.init, None))
        lcount.append(1)
        return SM.Retry if len(lcount) == 1 else SM.Finish

    def K(sm):
        calls.append(('K', None, None))
        return L
    funcs = {'A': A, 'B': B, 'C': C}

    def body():
        sm = SM.StateMachine()
        out['sm'] = sm
        sm.start(A, cleanup=K)
        sm.cycle()
        sched.begin()

        def cycler():
            for _ in range(5):
                try:
                    sm.cycle()
                except Exception as e:       # noqa
                    errors.append(('cycle', repr(e)))
                calls.append(('cycle-end', None, None))

        def requester(ops):
            def run():
                for op in ops:
                    try:
                        if op[0] == 'stop':
                            sm.stop()
                        else:
                            sm.start(funcs[op[1]], attr=op[2])
                        calls.append(('req', op[0], op[1] if len(op) > 1 else None))
                    except Exception as e:       # noqa
                        errors.append((op[0], repr(e)))
            return run
        ts = [schedx.Thread(target=cycler, name='cycler')] + \
             [schedx.Thread(target=requester(ops), name=f'req{i}') for i, ops in enumerate(case['threads'])]
        for t in ts:
            t.start()
        for t in ts:
            t.join()
        for _ in range(6):                    # run to quiescence
            try:
                sm.cycle()
            except Exception as e:           # noqa
                errors.append(('cycle', repr(e)))
            calls.append(('cycle-end', None, None))
        out['active'] = sm.is_active
        out['state'] = sm.statefunc.__name__ if sm.statefunc else None
        out['attr'] = getattr(sm, 'attr', None)
    x = sched.run(body)
    return x, judge(case, x, calls, errors, out), calls


def judge(case, x, calls, errors, out):
    if x.deadlock:
        return [('conc:deadlock', x.deadlock)]
    if x.livelock:
        return [('conc:livelock', x.livelock)]
    for t in x.threads:
        if t.exc is not None:
            return [(f'conc:thread-died:{type(t.exc).__name__}', f'{t.name}: {t.exc!r}')]
    viol = []
    for what, e in errors:
        viol.append((f'conc:{what}-raised', e))
    fc = [c for c in calls if c[0] in 'ABCKL']
    nk = sum(1 for c in fc if c[0] == 'K')
    if nk != 1:
        viol.append(('conc:cleanup-called-%s' % ('never' if nk == 0 else 'more-than-once'), f'K called {nk} times; calls {[c[0] for c in fc]}'))
    if nk:
        k = next(i for i, c in enumerate(fc) if c[0] == 'K')
        after = [c[0] for c in fc[k + 1:]]
        if 'A' in after:
            viol.append(('conc:interrupted-state-called-after-cleanup', f'calls {[c[0] for c in fc]}'))
        # the cleanup sequence K, L, L must not be interrupted
        seq = after[:2]
        if seq != ['L', 'L']:
            viol.append(('conc:cleanup-sequence-interrupted', f'after K came {after[:4]} (expected L, L); calls {[c[0] for c in fc]}'))
        if after.count('L') != 2:
            viol.append(('conc:cleanup-sequence-restarted', f'L called {after.count("L")} times; calls {[c[0] for c in fc]}'))
    # init flag
    prev = None
    for c in fc:
        if c[0] in 'ABCL':
            want = prev != c[0]
            if c[0] == 'L' and prev == 'K':
                want = True
            if bool(c[1]) != want and not (prev == c[0] and c[1]):     # a restart of the same state is a transition too
                viol.append(('conc:init-flag-wrong', f'{c[0]} called with init={c[1]} after {prev}; calls {[(q[0], q[1]) for q in fc]}'))
                break
        prev = c[0]
    # last request wins
    finals = []
    for ops in case['threads']:
        last = ops[-1]
        finals.append((None, None) if last[0] == 'stop' else (last[1], last[2]))
    got = (out.get('state'), out.get('attr') if out.get('state') else None)
    if len(finals) == 1 or True:
        ok = any(got[0] == f[0] and (f[0] is None or got[1] == f[1]) for f in finals)
        if not ok:
            viol.append(('conc:last-request-lost', f'final state {got}, last requests {finals}; calls {[c[0] for c in fc][-8:]}'))
    # every call of the final state saw the attribute of its start
    for f in finals:
        if f[0] is not None:
            seen = {c[2] for c in fc if c[0] == f[0]}
            if seen - {f[1]}:
                viol.append(('conc:state-entered-with-foreign-attributes', f'{f[0]} saw attr {sorted(map(str, seen))}, its start gave {f[1]}'))
    return viol


def cases(tier):
    res = []
    for name, threads in SCENARIOS.items():
        res.append({'kind': 'conc', 'name': name, 'threads': threads, 'level': 'line', 'bound': 2 if tier == 'quick' else 3})
    for name in MODULE_SCENARIOS:
        res.append({'kind': 'conc', 'name': name, 'threads': [], 'level': 'line', 'bound': 1 if tier == 'quick' else 2})
    return res


def trace(case):
    from vf.engines import schedx
    import frappy.lib.statemachine as SM
    S = SM.StateMachine
    funcs = [S.cycle, S._cleanup, S._new_state, S.start, S.stop]
    if case['name'].startswith('mod:'):
        from frappy.states import HasStates as H
        funcs = [S.start, S.stop, S._new_state, H.start_machine, H.stop_machine, H.cycle_machine, H.final_status, H.state_transition]
    schedx.trace_lines(funcs)


def root_fn(case):
    from vf.engines import schedx
    trace(case)
    x1, _v, c1 = execute(case, [])
    x2, _v, c2 = execute(case, [])
    if x1.trace != x2.trace or c1 != c2:
        raise core.Inconclusive(f'C14 concurrent case {case["name"]}: the default schedule is not deterministic')
    part = core.Part()
    part.data.append([case['name'], schedx.first_level(x1, case['bound'], 0)])
    part.extra['points_in_default_schedule'] += len(x1.points)
    return part


def sub_fn(shard):
    from vf.engines import schedx
    case, prefix = shard
    part = core.Part()
    trace(case)

    def ex(pfx):
        x, viol, calls = execute(case, pfx)
        part.evaluations += 1
        part.traces += 1
        part.transitions += x.steps
        part.fps |= x.fingerprints
        part.outcomes[hash(tuple(c[0] for c in calls if c and c[0] in 'ABCKL')) if not case['name'].startswith('mod:') else str(calls)] += 1
        if x.preemptions:
            part.nontrivial += 1
        for sig, detail in viol:
            part.violation(f'C14:{sig}', dict(case, prefix=list(x.choices)), f'case {case["name"]} schedule {x.choices}: {detail}')
        if part.evaluations % 499 == 1:
            part.sample({'case': case['name'], 'schedule': list(x.choices), 'calls': str(calls) if case['name'].startswith('mod:') else ''.join(c[0] for c in calls if c[0] in 'ABCKL')})
        return x
    if prefix is None:
        ex([])
    else:
        schedx.explore(ex, case['bound'], prefix=prefix)
    part.extra['schedules'] += part.evaluations
    return part


def run_conc(ctx):
    cs = cases(ctx.tier)
    roots = ctx.pmap(root_fn, cs, name='conc_determinism')
    byname = {c['name']: c for c in cs}
    shards = []
    for name, prefixes in roots.data:
        shards.append((byname[name], None))
        shards += [(byname[name], p) for p in prefixes]
    ctx.total.data.clear()
    ctx.pmap(sub_fn, shards, name='concurrent_schedules')
    ctx.coverage.update(concurrent_cases={c['name']: c['bound'] for c in cs})


def replay_conc(case):
    trace(case)
    part = core.Part()
    x, viol, calls = execute(case, case['prefix'])
    for sig, detail in viol:
        part.violation(f'C14:{sig}', case, detail)
    part.notes.append(repr(calls))
    part.evaluations = 1
    return part
