"""C15 - lifecycle: initialise, write config, poll, serve; shutdown in reverse order.

enumx + schedx: ALL labelled digraphs of attachments on n modules (n <= 3 with two attachment slots per module = 4096
graphs, n = 4 with one slot = 625 graphs in quick; n = 4 with two slots in thorough; self-loops and cycles included;
a labelled graph with the fixed declaration order m0..m(n-1) covers every declaration order of every unlabelled
graph) x {attachments read in earlyInit / in initModule / never} x export patterns {all exported, first unexported, last
unexported, none exported} x {polling, not polling} with a configured write, plus special scenarios (attachment of
the wrong class, missing module, optional attachment not given, earlyInit / initModule raising, communicator shared
through `uri`, a Pinata producing a module).  The node is built by the real Server._processCfg (SecNode.create_modules,
get_module, Attached, HasIO) and - for accepted configurations - started for real: startModule, the real poll threads
and MultiEvent run under schedx in virtual time (default schedule; thorough: all schedules with <= 1 preemption for
n <= 2), then the real SecNode.shutdown_modules.

Oracle on the event log of the instrumented modules:
  order      per module earlyInit < initModule < startModule, each exactly once
  attached   at the moment an attachment is handed to its user the attached module has completed both inits
  refused    an attachment that is missing, of the wrong class, or part of a cycle that is actually followed, and an init that
             raises, make the node refuse to start with an error text naming a module involved - no hang, no half start
  accepted   everything else starts
  writes     a configured value is written exactly once, before the module's first poll / read
  ready      _processCfg returns only after every poll thread finished its first round (or its time-out)
  shutdown   every stopPollThread precedes every shutdownModule; each module is shut down exactly once; a user is shut down
             before the modules it is (resolved) attached to
Oracle calibration: for a refused configuration only the refusal is judged; attachments never read are not edges for
cycle detection or shutdown order (the framework can not know them); "first round" = the initial reads of the poll thread.
"""
from vf import core

PROPERTY = 'C15'

EV = []      # event log of the instrumented modules (one execution at a time per process)
_classes = {}


def classes():
    if _classes:
        return _classes
    from frappy.core import Readable, Module, Parameter, Property, FloatRange, StringType, Attached, Communicator
    from frappy.io import HasIO
    from frappy.dynamic import Pinata
    from frappy.errors import HardwareError

    class Mixin:
        a1 = Attached(mandatory=False)
        a2 = Attached(mandatory=False)
        touch = Property('where attachments are read', StringType(), default='never')
        fail = Property('where to fail', StringType(), default='')
        p = Parameter('configured parameter', FloatRange(), default=0, readonly=False)
        q = Parameter('second configured parameter', FloatRange(), default=0, readonly=False)
        wfail = Property('which write method fails', StringType(), default='')
        slow = Property('duration of one hardware read [s]', FloatRange(), default=0.0)

        def _touch(self):
            for attr in ('a1', 'a2'):
                t = getattr(self, attr)
                if t is not None:
                    EV.append(('attach', self.name, attr, t.name, bool(t.earlyInitDone), bool(t.initModuleDone)))

        def earlyInit(self):
            EV.append(('early', self.name))
            if self.fail == 'early':
                raise HardwareError(f'{self.name} fails early')
            if self.touch == 'early':
                self._touch()
            super().earlyInit()

        def initModule(self):
            EV.append(('init', self.name))
            if self.fail == 'init':
                raise HardwareError(f'{self.name} fails in init')
            if self.touch == 'init':
                self._touch()
            super().initModule()

        def startModule(self, start_events):
            EV.append(('start', self.name))
            super().startModule(start_events)

        def stopPollThread(self):
            EV.append(('stoppoll', self.name))
            super().stopPollThread()

        def shutdownModule(self):
            EV.append(('shutdown', self.name))
            super().shutdownModule()

        def write_p(self, value):
            EV.append(('write', self.name, value, 'p'))
            if self.wfail == 'p':
                raise HardwareError(f'{self.name} can not write p')
            return value

        def write_q(self, value):
            EV.append(('write', self.name, value, 'q'))
            if self.wfail == 'q':
                raise HardwareError(f'{self.name} can not write q')
            return value

    def slow_read(self):
        EV.append(('read', self.name))
        if self.slow:
            from vf.engines import schedx
            schedx.vsleep(self.slow)
            EV.append(('read-done', self.name))
        return 1.0

    class Poll(Mixin, Readable):
        read_value = slow_read

        def doPoll(self):
            EV.append(('poll', self.name))
            super().doPoll()

    class NoPoll(Mixin, Module):
        enablePoll = False

    class Other(Module):
        """a module class that is not accepted by the typed attachment"""
        def earlyInit(self):
            EV.append(('early', self.name))
            super().earlyInit()

        def initModule(self):
            EV.append(('init', self.name))
            super().initModule()

        def startModule(self, start_events):
            EV.append(('start', self.name))
            super().startModule(start_events)

        def shutdownModule(self):
            EV.append(('shutdown', self.name))
            super().shutdownModule()

    class Typed(Mixin, Module):
        enablePoll = False
        a1 = Attached(Poll, mandatory=False)
        a3 = Attached(mandatory=True)

        def _touch(self):
            super()._touch()
            t = self.a3
            EV.append(('attach', self.name, 'a3', t.name, bool(t.earlyInitDone), bool(t.initModuleDone)))

    class Io(Communicator):
        uri = Property('uri', StringType(), default='')

        def earlyInit(self):
            EV.append(('early', self.name))
            super().earlyInit()

        def initModule(self):
            EV.append(('init', self.name))
            super().initModule()

        def startModule(self, start_events):
            EV.append(('start', self.name))
            super().startModule(start_events)

        def shutdownModule(self):
            EV.append(('shutdown', self.name))
            super().shutdownModule()

        def communicate(self, command):
            return command

    class IoQuiet(Io):
        """a communicator that does not poll anything itself: its poll thread exists only for its users"""
        enablePoll = False

    class WithIo(HasIO, Mixin, Readable):
        ioClass = Io

        def _touch(self):
            super()._touch()
            t = self.io         # the communicator (given by name or created from the uri) is an attachment as well
            EV.append(('attach', self.name, 'io', t.name, bool(t.earlyInitDone), bool(t.initModuleDone)))

        read_value = slow_read

    class Pin(Pinata):
        def earlyInit(self):
            EV.append(('early', self.name))
            super().earlyInit()

        def initModule(self):
            EV.append(('init', self.name))
            super().initModule()

        def startModule(self, start_events):
            EV.append(('start', self.name))
            super().startModule(start_events)

        def shutdownModule(self):
            EV.append(('shutdown', self.name))
            super().shutdownModule()

        def scanModules(self):
            yield 'pm', {'cls': Poll, 'description': 'from pinata', 'a1': 'm0', 'touch': 'init'}

    _classes.update(Poll=Poll, NoPoll=NoPoll, Other=Other, Typed=Typed, Io=Io, IoQuiet=IoQuiet, WithIo=WithIo, Pin=Pin)
    return _classes


def build_cfg(case):
    C = classes()
    cfg = {}
    for name, m in case['modules'].items():
        d = {'cls': C[m['cls']]}
        for k in ('a1', 'a2', 'a3', 'touch', 'fail', 'uri', 'io', 'wfail', 'slow'):
            if m.get(k):
                d[k] = m[k]
        if m.get('q') is not None:
            d['q'] = {'value': m['q']}
        if 'export' in m:
            d['export'] = m['export']
        if m.get('p') is not None:
            d['p'] = {'value': m['p']}
        cfg[name] = d
    return cfg


def execute(case, prefix=()):
    """build + start + shut down one configuration under schedx; returns (events, outcome, Execution)"""
    from vf.engines import schedx
    from vf import nodes
    import frappy.io  # noqa: F401
    import frappy.dynamic  # noqa: F401
    import frappy.lib.multievent  # noqa: F401
    schedx.install()
    frappy.io.HasIO.ioDict.clear()
    del EV[:]
    # scenarios that let virtual time pass before the shutdown need a clock that moves with every reading (a poll loop
    # waiting exactly until a due time must see it passed)
    sched = schedx.Scheduler(list(prefix), max_steps=20000, horizon=200.0, tick=1e-4 if case.get('shutdown_after') else 0.0)
    out = {}

    def body():
        sched.begin()
        try:
            node = nodes.Node(build_cfg(case), start=True)
        except nodes.StartupRefused as e:
            out['refused'] = list(e.errors)
            out['logged'] = [r[2][-300:] for r in getattr(e, 'logged', [])]
            return
        out['node'] = node
        EV.append(('ready',))
        out['modules'] = list(node.secnode.modules)
        out['resolved'] = {n: {k: v.name for k, v in m.attachedModules.items()} for n, m in node.secnode.modules.items()}
        if case.get('shutdown_after'):
            schedx.vsleep(case['shutdown_after'])       # the node serves for a while: the shutdown arrives in the middle of a poll round
        EV.append(('shutdown-request',))
        node.secnode.shutdown_modules()
        if case.get('shutdown_after'):
            schedx.vsleep(6.0)          # a poll thread that was not really stopped shows itself
        EV.append(('down',))
    # a followed attachment cycle ends in RecursionError inside frappy; a lower limit only shortens that (slow) path:
    # the deepest legitimate call chain of these configurations is far below it
    import sys
    limit = sys.getrecursionlimit()
    sys.setrecursionlimit(400)
    try:
        x = sched.run(body)
    finally:
        sys.setrecursionlimit(limit)
    if out.get('node') is not None:
        out['node'].close()
    return list(EV), out, x


def touched_edges(case):
    """attachment edges that are actually followed during start-up"""
    edges = []
    for name, m in case['modules'].items():
        if m['cls'] in ('Poll', 'NoPoll', 'Typed', 'WithIo') and m.get('touch', 'never') in ('early', 'init'):
            for attr in ('a1', 'a2', 'a3'):
                if m.get(attr):
                    edges.append((name, attr, m[attr]))
        if m.get('io'):
            edges.append((name, 'io', m['io']))
    return edges


def has_cycle(edges):
    graph = {}
    for u, _a, v in edges:
        graph.setdefault(u, []).append(v)
    state = {}

    def go(u):
        state[u] = 1
        for v in graph.get(u, []):
            if state.get(v) == 1 or (state.get(v) is None and go(v)):
                return True
        state[u] = 2
        return False
    return any(state.get(u) is None and go(u) for u in list(graph))


def judge(case, ev, out, x):
    viol = []
    if x.deadlock:
        return [('deadlock', x.deadlock)]
    if x.livelock:
        return [('hang', x.livelock)]
    for t in x.threads:
        if t.exc is not None:
            return [(f'thread-died:{type(t.exc).__name__}', f'{t.name}: {t.exc!r}')]
    mods = case['modules']
    edges = touched_edges(case)
    expect_refusal = None
    culprits = set()
    for u, a, v in edges:
        if v not in mods and v != 'pm':
            expect_refusal = 'missing-attachment'
            culprits |= {u, v}
        elif a == 'a1' and mods[u]['cls'] == 'Typed' and mods[v]['cls'] not in ('Poll',):
            expect_refusal = 'wrong-class-attachment'
            culprits |= {u, v}
    for name, m in mods.items():
        if m['cls'] == 'Typed' and not m.get('a3'):
            expect_refusal = 'mandatory-attachment-not-given'
            culprits.add(name)
        if m.get('fail'):
            expect_refusal = 'init-raises'
            culprits.add(name)
    if expect_refusal is None and has_cycle(edges):
        expect_refusal = 'cyclic-attachment'
        culprits |= {u for u, _a, _v in edges} | {v for _u, _a, v in edges}
    if 'refused' in out:
        if expect_refusal is None:
            return [('valid-configuration-refused', f'errors {out["refused"]} {out.get("logged", [])[-1:]}')]
        text = ' '.join(out['refused'] + out.get('logged', []))
        if not any(c in text for c in culprits):
            viol.append((f'refusal-does-not-name-a-module:{expect_refusal}', f'errors {out["refused"]}; involved modules {sorted(culprits)}'))
        if expect_refusal != 'cyclic-attachment' and not has_cycle(edges):
            # nothing is half-initialised twice: also a failing module gets each init call once, its failure is reported once
            for n in mods:
                ne = sum(1 for e in ev if e[:2] == ('early', n))
                ni = sum(1 for e in ev if e[:2] == ('init', n))
                if ne > 1 or ni > 1:
                    viol.append((f'refused:initialised-twice:{expect_refusal}', f'module {n}: earlyInit x{ne}, initModule x{ni}; errors {out["refused"]}'))
        return viol
    if expect_refusal is not None:
        return [(f'not-refused:{expect_refusal}', f'the node started although {expect_refusal} ({sorted(culprits)}); events {ev[:12]}')]
    # ---- accepted configuration
    names = out['modules']
    idx = {}
    for i, e in enumerate(ev):
        idx.setdefault(e[:2] if len(e) > 1 else e, []).append(i)
    ready = idx.get(('ready',), [None])[0]
    for n in names:
        e, i, s = idx.get(('early', n), []), idx.get(('init', n), []), idx.get(('start', n), [])
        if len(e) != 1 or len(i) != 1 or len(s) != 1:
            kind = 'never-initialised' if not e or not i else ('initialised-twice' if len(e) > 1 or len(i) > 1 else 'start-count')
            viol.append((f'lifecycle:{kind}:{"exported" if mods.get(n, {}).get("export", True) else "unexported"}-module',
                         f'module {n}: earlyInit x{len(e)}, initModule x{len(i)}, startModule x{len(s)}; events {[x_ for x_ in ev if len(x_) > 1 and x_[1] == n][:8]}'))
            continue
        if not e[0] < i[0] < s[0]:
            viol.append(('lifecycle:order', f'module {n}: earlyInit@{e[0]} initModule@{i[0]} startModule@{s[0]}'))
    for e in ev:
        if e[0] == 'attach' and not (e[4] and e[5]):
            viol.append(('attached-module-not-initialised', f'{e[1]}.{e[2]} got {e[3]} with earlyInitDone={e[4]} initModuleDone={e[5]}'))
    for n in names:
        m = mods.get(n, {})
        first = [i for i, e in enumerate(ev) if e[0] in ('read', 'poll') and e[1] == n]
        for pname in ('p', 'q'):
            # (a write method that raises has still been called: the start value was handed to the driver)
            w = [i for i, e in enumerate(ev) if e[0] == 'write' and e[1] == n and e[3] == pname]
            if m.get(pname) is None:
                continue
            other_fails = ':another-write-of-the-module-failed' if m.get('wfail') and m['wfail'] != pname else ''
            if len(w) != 1:
                viol.append(('configured-value-written-%s%s' % ('never' if not w else 'more-than-once', other_fails),
                             f'module {n}: write_{pname} called {len(w)} times'))
            elif first and w[0] > first[0]:
                viol.append(('configured-value-written-after-first-poll' + other_fails, f'module {n}: write_{pname}@{w[0]} first poll@{first[0]}'))
            elif ready is not None and w[0] > ready:
                viol.append(('ready-before-configured-write' + other_fails, f'module {n}: write_{pname}@{w[0]} ready@{ready}'))
        if m.get('cls') in ('Poll', 'WithIo') and ready is not None:
            if not first or first[0] > ready:
                viol.append(('ready-before-first-poll-round', f'module {n}: first read@{first[:1]} ready@{ready}'))
    # ---- shutdown
    stops = [i for i, e in enumerate(ev) if e[0] == 'stoppoll']
    downs = [i for i, e in enumerate(ev) if e[0] == 'shutdown']
    if stops and downs and max(stops) > min(downs):
        viol.append(('shutdown-before-poll-threads-stopped', f'stopPollThread@{max(stops)} after shutdownModule@{min(downs)}'))
    # nothing is polled any more once modules are being shut down (the read in flight when the request came may finish)
    # (a poll fetched just before the stop request, and a read in flight, may still run: stopPollThread only asks, and
    # joinPollThread gives up after 0.5 s - but no new poll may START once modules are being shut down)
    if downs:
        late = [e for i, e in enumerate(ev) if i > min(downs) and e[0] in ('read', 'poll')]
        if late:
            viol.append(('poll-started-after-modules-were-shut-down',
                         f'{late[:4]} started after the first shutdownModule; events from the request on: '
                         f'{ev[idx.get(("shutdown-request",), [0])[0]:][:16]}'))
    for n in names:
        d = idx.get(('shutdown', n), [])
        if len(d) != 1:
            viol.append(('shutdown-count', f'module {n} shut down {len(d)} times'))
    for u, atts in out.get('resolved', {}).items():
        for _a, v in atts.items():
            du, dv = idx.get(('shutdown', u), []), idx.get(('shutdown', v), [])
            if du and dv and u != v and du[0] > dv[0]:
                viol.append(('attached-module-shut-down-before-its-user', f'{v} shut down @{dv[0]} before its user {u} @{du[0]}'))
    return viol


# ---------------------------------------------------------------------------------------------
# case enumeration

def graph_cases(n, slots, tier):
    """all labelled attachment digraphs on n modules with `slots` attachment slots per module"""
    names = [f'm{i}' for i in range(n)]
    targets = [''] + names
    import itertools
    per_module = list(itertools.product(targets, repeat=slots))
    if n <= 2 or (tier == 'thorough' and n == 3):
        exports = [None, 0, n - 1, 'none']
    elif n == 3 or (tier == 'thorough' and slots == 1):
        exports = [None, 0]
    else:
        exports = [None]
    touches = ['early', 'init', 'never'] if not (n == 4 and slots == 2) else ['init', 'never']
    for combo in itertools.product(per_module, repeat=n):
        for touch in touches:
            if touch == 'never' and any(any(c) for c in combo) and combo != per_module_first_nonempty(per_module, n):
                # attachments that are never read do not influence anything: one representative graph is enough
                continue
            for ex in exports:
                mods = {}
                for i, name in enumerate(names):
                    m = {'cls': 'Poll' if (i % 2 == 0) else 'NoPoll', 'touch': touch, 'p': 1.5 if i != 1 else None}
                    m['a1'] = combo[i][0]
                    if slots > 1:
                        m['a2'] = combo[i][1]
                    if ex == 'none' or ex == i:
                        m['export'] = False
                    mods[name] = m
                yield {'kind': 'graph', 'modules': mods}


def per_module_first_nonempty(per_module, n):
    return tuple([per_module[1]] * n)


SPECIAL = [
    ('wrong-class', {'m0': {'cls': 'Typed', 'a1': 'm1', 'a3': 'm1', 'touch': 'init'}, 'm1': {'cls': 'Other'}}),
    ('wrong-class-early', {'m0': {'cls': 'Typed', 'a1': 'm1', 'a3': 'm1', 'touch': 'early'}, 'm1': {'cls': 'NoPoll'}}),
    ('right-class', {'m0': {'cls': 'Typed', 'a1': 'm1', 'a3': 'm1', 'touch': 'init'}, 'm1': {'cls': 'Poll'}}),
    ('missing-module', {'m0': {'cls': 'NoPoll', 'a1': 'nope', 'touch': 'init'}, 'm1': {'cls': 'Poll'}}),
    ('missing-module-early', {'m0': {'cls': 'Poll', 'a2': 'nope', 'touch': 'early'}}),
    ('mandatory-not-given', {'m0': {'cls': 'Typed', 'touch': 'init'}, 'm1': {'cls': 'Poll'}}),
    ('optional-not-given', {'m0': {'cls': 'Poll', 'touch': 'init', 'p': 2.5}, 'm1': {'cls': 'NoPoll', 'touch': 'early'}}),
    ('early-raises', {'m0': {'cls': 'Poll', 'fail': 'early'}, 'm1': {'cls': 'Poll', 'a1': 'm0', 'touch': 'init'}}),
    ('init-raises', {'m0': {'cls': 'NoPoll', 'a1': 'm1', 'touch': 'early'}, 'm1': {'cls': 'Poll', 'fail': 'init'}}),
    ('init-raises-unexported', {'m0': {'cls': 'NoPoll', 'fail': 'init', 'export': False}, 'm1': {'cls': 'Poll'}}),
    ('shared-uri', {'m0': {'cls': 'WithIo', 'uri': 'x://1', 'p': 1.5}, 'm1': {'cls': 'WithIo', 'uri': 'x://1'}, 'm2': {'cls': 'WithIo', 'uri': 'x://2'}}),
    ('explicit-io', {'io1': {'cls': 'Io'}, 'm0': {'cls': 'WithIo', 'io': 'io1', 'p': 1.5}, 'm1': {'cls': 'WithIo', 'io': 'io1', 'a1': 'm0', 'touch': 'init'}}),
    ('io-declared-last', {'m0': {'cls': 'WithIo', 'io': 'io1'}, 'io1': {'cls': 'Io'}}),
    ('pinata', {'m0': {'cls': 'Poll'}, 'pin': {'cls': 'Pin'}}),
    ('pinata-first', {'pin': {'cls': 'Pin'}, 'm0': {'cls': 'NoPoll', 'p': 1.0}}),
    ('two-pollers', {'m0': {'cls': 'Poll', 'p': 1.5}, 'm1': {'cls': 'Poll', 'p': 2.5}}),
    ('three-pollers', {'m0': {'cls': 'Poll'}, 'm1': {'cls': 'Poll', 'a1': 'm0', 'touch': 'init'}, 'm2': {'cls': 'Poll', 'p': 1.0}}),
    ('all-unexported', {'m0': {'cls': 'Poll', 'export': False, 'p': 1.5}, 'm1': {'cls': 'NoPoll', 'export': False}}),
    # several configured start values, one of the write methods failing
    # configured start values equal to the declared default of the parameter / to its class-level start value
    ('start-value-equal-to-default', {'m0': {'cls': 'Poll', 'p': 0.0, 'q': 2.5}, 'm1': {'cls': 'NoPoll', 'p': 0.0, 'q': 0.0}}),
    ('start-value-equal-to-default-shared-io', {'m0': {'cls': 'WithIo', 'uri': 'x://1', 'p': 0.0}, 'm1': {'cls': 'WithIo', 'uri': 'x://1', 'q': 0.0}}),
    ('two-writes', {'m0': {'cls': 'Poll', 'p': 1.5, 'q': 2.5}, 'm1': {'cls': 'NoPoll', 'p': 3.5, 'q': 4.5}}),
    ('first-write-fails', {'m0': {'cls': 'Poll', 'p': 1.5, 'q': 2.5, 'wfail': 'p'}, 'm1': {'cls': 'Poll', 'p': 3.5}}),
    ('second-write-fails', {'m0': {'cls': 'Poll', 'p': 1.5, 'q': 2.5, 'wfail': 'q'}, 'm1': {'cls': 'Poll', 'p': 3.5}}),
    ('first-write-fails-nopoll', {'m0': {'cls': 'NoPoll', 'p': 1.5, 'q': 2.5, 'wfail': 'p'}, 'm1': {'cls': 'Poll', 'a1': 'm0', 'touch': 'init'}}),
    ('write-fails-shared-io-thread', {'m0': {'cls': 'WithIo', 'uri': 'x://1', 'p': 1.5, 'q': 2.5, 'wfail': 'p'},
                                      'm1': {'cls': 'WithIo', 'uri': 'x://1', 'p': 3.5, 'q': 4.5, 'wfail': 'q'}}),
    # the communicator created from a uri is an attachment of its owner: every declaration order of user / owner
    ('user-before-uri-owner', {'m0': {'cls': 'Poll', 'a1': 'm1', 'touch': 'init'}, 'm1': {'cls': 'WithIo', 'uri': 'x://1', 'touch': 'init'}}),
    ('user-before-uri-owner-early', {'m0': {'cls': 'NoPoll', 'a1': 'm1', 'touch': 'early'}, 'm1': {'cls': 'WithIo', 'uri': 'x://1', 'touch': 'early'}}),
    ('uri-owner-before-user', {'m0': {'cls': 'WithIo', 'uri': 'x://1', 'touch': 'init'}, 'm1': {'cls': 'Poll', 'a1': 'm0', 'touch': 'init'}}),
    ('chain-to-uri-owner', {'m0': {'cls': 'Poll', 'a1': 'm1', 'touch': 'init'}, 'm1': {'cls': 'NoPoll', 'a1': 'm2', 'touch': 'early'},
                            'm2': {'cls': 'WithIo', 'uri': 'x://2', 'touch': 'init'}}),
    ('user-before-explicit-io-owner', {'m0': {'cls': 'Poll', 'a1': 'm1', 'touch': 'init'}, 'm1': {'cls': 'WithIo', 'io': 'io1', 'touch': 'init'},
                                       'io1': {'cls': 'Io'}}),
    # unexported users of a communicator, in every position relative to it
    ('unexported-io-user', {'io1': {'cls': 'Io'}, 'm0': {'cls': 'WithIo', 'io': 'io1', 'export': False, 'p': 1.5},
                            'm1': {'cls': 'WithIo', 'io': 'io1', 'p': 2.5}}),
    ('unexported-io-user-last', {'io1': {'cls': 'Io'}, 'm1': {'cls': 'WithIo', 'io': 'io1', 'p': 2.5},
                                 'm0': {'cls': 'WithIo', 'io': 'io1', 'export': False, 'p': 1.5, 'q': 3.5}}),
    ('unexported-io-user-first', {'m0': {'cls': 'WithIo', 'io': 'io1', 'export': False, 'p': 1.5}, 'io1': {'cls': 'Io'},
                                  'm1': {'cls': 'WithIo', 'io': 'io1'}}),
    ('only-unexported-io-users', {'io1': {'cls': 'Io'}, 'm0': {'cls': 'WithIo', 'io': 'io1', 'export': False, 'p': 1.5},
                                  'm1': {'cls': 'WithIo', 'io': 'io1', 'export': False, 'p': 2.5}}),
    ('unexported-user-of-quiet-io', {'io1': {'cls': 'IoQuiet'}, 'm0': {'cls': 'WithIo', 'io': 'io1', 'export': False, 'p': 1.5},
                                     'm1': {'cls': 'WithIo', 'io': 'io1', 'p': 2.5}}),
    ('only-unexported-users-of-quiet-io', {'io1': {'cls': 'IoQuiet'}, 'm0': {'cls': 'WithIo', 'io': 'io1', 'export': False, 'p': 1.5},
                                           'm1': {'cls': 'WithIo', 'io': 'io1', 'export': False, 'p': 2.5}}),
    ('quiet-io-declared-last', {'m0': {'cls': 'WithIo', 'io': 'io1', 'export': False, 'p': 1.5}, 'm1': {'cls': 'WithIo', 'io': 'io1', 'p': 2.5},
                                'io1': {'cls': 'IoQuiet'}}),
    ('unexported-uri-user', {'m0': {'cls': 'WithIo', 'uri': 'x://1', 'export': False, 'p': 1.5}, 'm1': {'cls': 'WithIo', 'uri': 'x://1', 'p': 2.5}}),
    ('unexported-io-and-user', {'io1': {'cls': 'Io', 'export': False}, 'm0': {'cls': 'WithIo', 'io': 'io1', 'export': False, 'p': 1.5},
                                'm1': {'cls': 'Poll', 'p': 2.5}}),
    # a shutdown request arriving in the middle of a poll round of slow modules (the poll interval is 5 s, a read takes 1 s)
    *[(f'slow-readers-one-thread@{t}', {'m0': {'cls': 'WithIo', 'uri': 'x://1', 'slow': 1.0}, 'm1': {'cls': 'WithIo', 'uri': 'x://1', 'slow': 1.0},
                                          'm2': {'cls': 'WithIo', 'uri': 'x://1', 'slow': 1.0}}) for t in (5.5, 6.5, 7.5, 8.5, 9.5, 10.5, 11.5)],
    # the same on the thread of a communicator that is not polled itself (wave 8, S15k)
    *[(f'slow-readers-on-quiet-io@{t}', {'io1': {'cls': 'IoQuiet'}, 'm0': {'cls': 'WithIo', 'io': 'io1', 'slow': 1.0},
                                         'm1': {'cls': 'WithIo', 'io': 'io1', 'slow': 1.0}}) for t in (5.5, 6.5, 7.5)],
    *[(f'slow-readers-own-threads@{t}', {'m0': {'cls': 'Poll', 'slow': 1.0}, 'm1': {'cls': 'Poll', 'slow': 2.0, 'a1': 'm0', 'touch': 'init'}})
      for t in (5.5, 6.5)],
    ('two-owners-of-one-uri-user-first', {'m0': {'cls': 'Poll', 'a1': 'm2', 'a2': 'm1', 'touch': 'init'},
                                          'm1': {'cls': 'WithIo', 'uri': 'x://1', 'touch': 'init'},
                                          'm2': {'cls': 'WithIo', 'uri': 'x://1', 'touch': 'early'}}),
]


def run_case(case, part, prefix=()):
    ev, out, x = execute(case, prefix)
    part.evaluations += 1
    part.traces += 1
    part.transitions += x.steps + len(ev)
    outcome = 'refused' if 'refused' in out else 'started'
    part.outcomes[outcome + ('/cyclic' if has_cycle(touched_edges(case)) else '')] += 1
    for sig, detail in judge(case, ev, out, x):
        part.violation(f'C15:{sig}', dict(case, prefix=list(prefix)), f'{describe(case)}: {detail}')
    return ev, out, x


def describe(case):
    return '; '.join(f'{n}({m["cls"]}{"" if m.get("export", True) else ",unexported"})' +
                     ''.join(f' {a}->{m[a]}' for a in ('a1', 'a2', 'a3', 'io', 'uri') if m.get(a)) +
                     (f' touch={m["touch"]}' if m.get('touch') else '') + (f' fail={m["fail"]}' if m.get('fail') else '')
                     for n, m in case['modules'].items())


def shard_fn(shard):
    n, slots, lo, hi, tier = shard
    part = core.Part()
    for k, case in enumerate(graph_cases(n, slots, tier)):
        if not lo <= k % 64 < hi:
            continue
        run_case(case, part)
        part.states += 1
        if touched_edges(case):
            part.nontrivial += 1
        if k % 1500 == 0:
            part.sample(describe(case))
    return part


def special_case(name, mods):
    case = {'kind': 'special', 'name': name, 'modules': mods}
    if '@' in name:          # <scenario>@<seconds the node serves before the shutdown request>
        case['shutdown_after'] = float(name.split('@')[1])
    return case


def special_root_fn(shard):
    """default schedule of a special scenario + the first-level prefixes of its schedule tree"""
    from vf.engines import schedx
    name, mods, bound = shard
    part = core.Part()
    case = special_case(name, mods)
    _ev, _out, x = run_case(case, part)
    _ev2, _out2, x2 = execute(case)
    if x.trace != x2.trace:
        raise core.Inconclusive(f'C15 special {name}: the default schedule is not deterministic')
    fb = (2 if bound >= 2 else 1) if bound else 0
    part.data.append([name, schedx.first_level(x, bound, 0, fb) if bound else []])
    part.states += 1
    part.nontrivial += 1
    part.sample(name + ': ' + describe(case))
    return part


def special_fn(shard):
    from vf.engines import schedx
    name, mods, bound, prefix = shard
    part = core.Part()
    case = special_case(name, mods)

    def ex(pfx):
        _ev, _out, x = run_case(case, part, pfx)
        return x
    schedx.explore(ex, bound, prefix=prefix, free_bound=(2 if bound >= 2 else 1) if bound else 0)
    return part


def run(ctx):
    quick = ctx.tier == 'quick'
    shards = []
    for n, slots in ([(1, 2), (2, 2), (3, 2), (4, 1)] if quick else [(1, 2), (2, 2), (3, 2), (4, 1), (4, 2)]):
        step = 64 if n < 3 else 4
        for lo in range(0, 64, step):
            shards.append((n, slots, lo, lo + step, ctx.tier))
    ctx.pmap(shard_fn, shards, name='graphs')
    def bound(name, mods):
        if name == 'two-pollers':
            return 2          # a poll thread finishing its first round between two startModule calls needs 2 preemptions
        return 1 if (not quick or len(mods) <= 2) else 0
    roots = ctx.pmap(special_root_fn, [(name, mods, bound(name, mods)) for name, mods in SPECIAL], name='special_default_schedules')
    bymods = dict(SPECIAL)
    shards = [(name, bymods[name], bound(name, bymods[name]), p) for name, prefixes in roots.data for p in prefixes]
    ctx.total.data.clear()
    ctx.pmap(special_fn, shards, name='special_schedules')
    ctx.rule = ('graphs: every labelled attachment digraph on n modules (two slots per module for n <= 3, one slot for n = 4; thorough: two '
                'slots for n = 4) x where attachments are read x export pattern; each built, started (real poll threads under schedx, '
                'default schedule) and shut down. special: 16 scenarios (typed / missing / optional attachments, failing inits, shared '
                'communicators, Pinata), all schedules with <= 1 preemption. evaluations = node life cycles executed and judged; '
                'distinct_nontrivial = configurations in which at least one attachment is followed')
    ctx.coverage.update(bound_completed='n<=3 complete with 2 slots, n=4 with 1 slot (quick); n=4 with 2 slots (thorough)')
    ctx.assume('attachments never read are one representative graph per n (they can not influence the life cycle)',
               'virtual time; the poll threads run under the default schedule in the graph sub-check')


def replay(case):
    part = core.Part()
    ev, out, x = run_case(case, part, case.get('prefix', ()))
    part.notes.append(repr(ev))
    part.notes.append(repr(out.get('refused')))
    return part
