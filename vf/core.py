"""Common runner pieces: worker pool, result merging, evidence, findings, replay files.

A harness module (vf/harness/cXX.py) provides
    PROPERTY   = 'CXX'
    run(ctx)              explore; use ctx.pmap(fn, shards) / ctx.add(part)
    replay(case) -> Part  re-execute exactly one recorded case (no search)
A worker function returns a `Part`; parts are merged by the parent.  Every violation carries a
*signature* (call site + input/history class), a JSON-able *case* from which replay() re-executes it,
and a human readable detail string.
"""
import collections
import hashlib
import io
import json
import multiprocessing
import os
import subprocess
import sys
import time
import traceback

VERIF = os.path.dirname(os.path.dirname(os.path.abspath(__file__)))
REPO = os.environ.get('VERIF_REPO', '/repo')
OUT = os.environ.get('VERIF_OUT') or VERIF    # evidence/ and replays/ are written below this (scratch dir for mutation demos)
TIER = 'quick'
SEED = 0


class Inconclusive(Exception):
    """the harness lost control (never a verdict)"""


class Part:
    """what one shard (or one replay) covered"""
    MAXSAMPLES = 6

    def __init__(self):
        self.evaluations = 0      # cases generated / executions run
        self.nontrivial = 0       # distinct non-trivial cases (shards are disjoint, so counts add)
        self.states = 0           # distinct (canonical) states / case keys seen
        self.fps = set()          # optional: state fingerprints (ints), unioned over shards; counted into states at the end
        self.transitions = 0      # real-code steps executed (calls / scheduling steps / fs operations)
        self.traces = 0           # executions compared against the reference oracle
        self.outcomes = collections.Counter()   # distinct observable outcomes (vacuity indicator)
        self.violations = {}      # sig -> [count, case, detail]
        self.samples = []
        self.caps = []            # caps hit (a capped run is never called exhaustive)
        self.extra = collections.Counter()
        self.notes = []
        self.data = []            # harness-private payload (e.g. sub-tree roots found by a first pass); concatenated

    def violation(self, sig, case, detail):
        ent = self.violations.get(sig)
        if ent is None:
            self.violations[sig] = [1, case, str(detail)[:2000]]
        else:
            ent[0] += 1

    def sample(self, s):
        if len(self.samples) < self.MAXSAMPLES:
            self.samples.append(s)

    def merge(self, other):
        self.evaluations += other.evaluations
        self.nontrivial += other.nontrivial
        self.states += other.states
        self.fps |= other.fps
        self.transitions += other.transitions
        self.traces += other.traces
        self.outcomes.update(other.outcomes)
        for sig, (n, case, detail) in other.violations.items():
            ent = self.violations.get(sig)
            if ent is None:
                self.violations[sig] = [n, case, detail]
            else:
                ent[0] += n
                # keep the smallest witness (shortest JSON) for readability and determinism
                if len(json.dumps(case, default=repr)) < len(json.dumps(ent[1], default=repr)):
                    ent[1], ent[2] = case, detail
        for s in other.samples:
            self.sample(s)
        for c in other.caps:
            if c not in self.caps:
                self.caps.append(c)
        self.extra.update(other.extra)
        self.data.extend(other.data)
        for n in other.notes:
            if n not in self.notes and len(self.notes) < 20:
                self.notes.append(n)
        return self


class _Sink(io.TextIOBase):
    def write(self, s):
        return len(s)


def _worker_init(tier, seed):
    global TIER, SEED
    TIER, SEED = tier, seed
    sys.stdout = _Sink()     # frappy prints tracebacks to stdout; only the parent may print verdict lines
    sys.stderr = _Sink()
    dump = os.environ.get('VERIF_DUMP_DIR')      # debugging aid: kill -USR1 <worker> writes all thread stacks there
    if dump:
        import faulthandler
        import signal
        faulthandler.register(signal.SIGUSR1, file=open(os.path.join(dump, f'stack-{os.getpid()}.txt'), 'w'), all_threads=True)


def _worker_call(args):
    fn, shard = args
    try:
        return fn(shard)
    except Inconclusive as e:
        return ('INCONCLUSIVE', f'{fn.__name__}({shard!r}): {e}')
    except BaseException:
        return ('CRASH', f'{fn.__name__}({shard!r})\n{traceback.format_exc()}')


class Ctx:
    def __init__(self, pid, tier, seed, workers):
        self.pid, self.tier, self.seed, self.workers = pid, tier, seed, workers
        self.total = Part()
        self.assumptions = []
        self.coverage = {}       # extra coverage keys (rule, bound_completed, ...)
        self.rule = ''
        self.exhaustive = True
        self._pool = None
        self.subchecks = {}

    def pool(self):
        if self._pool is None:
            ctx = multiprocessing.get_context('fork')
            self._pool = ctx.Pool(self.workers, _worker_init, (self.tier, self.seed))
        return self._pool

    def pmap(self, fn, shards, name=None):
        """run fn(shard) for all shards in the worker pool, merge the parts; returns merged Part of this call"""
        shards = list(shards)
        # the seed only permutes the order in which shards are handed out
        import random
        random.Random(self.seed).shuffle(shards)
        sub = Part()
        t0 = time.time()
        if self.workers <= 1:
            results = map(_worker_call, [(fn, s) for s in shards])
        else:
            results = self.pool().imap_unordered(_worker_call, [(fn, s) for s in shards])
        for res in results:
            if isinstance(res, tuple):
                raise Inconclusive(f'{res[0]}: {res[1]}')
            sub.merge(res)
        self.total.merge(sub)
        if os.environ.get('VERIF_PROGRESS'):
            sys.stderr.write(f'  .. {name or fn.__name__}: {len(shards)} shards, {sub.evaluations} evaluations, {time.time() - t0:.0f} s\n')
            sys.stderr.flush()
        if name:
            self.subchecks[name] = dict(
                evaluations=sub.evaluations, distinct_nontrivial=sub.nontrivial, states=sub.states,
                transitions=sub.transitions, distinct_outcomes=len(sub.outcomes),
                violations=sum(v[0] for v in sub.violations.values()), wall_s=round(time.time() - t0, 2),
                **{k: v for k, v in sub.extra.items()})
        return sub

    def add(self, part, name=None):
        self.total.merge(part)
        if name:
            self.subchecks[name] = dict(
                evaluations=part.evaluations, distinct_nontrivial=part.nontrivial, states=part.states,
                transitions=part.transitions, distinct_outcomes=len(part.outcomes),
                violations=sum(v[0] for v in part.violations.values()),
                **{k: v for k, v in part.extra.items()})

    def assume(self, *texts):
        for t in texts:
            if t not in self.assumptions:
                self.assumptions.append(t)

    def close(self):
        if self._pool is not None:
            self._pool.close()
            self._pool.join()
            self._pool = None


# ---------------------------------------------------------------------------------------------
# known findings

def load_findings():
    """known_findings.txt (committed, never written at run time), one record per line:
         known: property=<id> signature=<sig> :: <what fails>      -> suppressed, printed as KNOWN-FINDING
         fixed: property=<id> <commit> signature=<sig> :: <what failed>   -> suppresses nothing
    """
    path = os.path.join(VERIF, 'known_findings.txt')
    known, fixed = {}, {}
    if os.path.exists(path):
        with open(path, encoding='utf-8') as f:
            for line in f:
                line = line.strip()
                if not line or line.startswith('#'):
                    continue
                head, _, what = line.partition(' :: ')
                fields = dict(w.split('=', 1) for w in head.split() if '=' in w)
                rec = {'property': fields.get('property'), 'signature': fields.get('signature'), 'what': what}
                if line.startswith('known:'):
                    known[(rec['property'], rec['signature'])] = rec
                elif line.startswith('fixed:'):
                    fixed[(rec['property'], rec['signature'])] = rec
    return known, fixed


def write_replay(pid, sig, case, detail, count):
    h = hashlib.sha1((pid + sig + json.dumps(case, sort_keys=True, default=repr)).encode()).hexdigest()[:10]
    os.makedirs(os.path.join(OUT, 'replays'), exist_ok=True)
    path = os.path.join(OUT, 'replays', f'{pid}-{h}.json')
    with open(path, 'w', encoding='utf-8') as f:
        json.dump({'property': pid, 'signature': sig, 'case': case, 'detail': detail, 'count': count,
                   'replay_cmd': f'bin/check {pid} --replay replays/{pid}-{h}.json'},
                  f, indent=1, default=repr)
    testpath = os.path.join(OUT, 'replays', f'test_{pid}_{h}.py')
    with open(testpath, 'w', encoding='utf-8') as f:
        f.write(
            '# plain regression test replaying one recorded violation without the explorer\n'
            '# run: PYTHONPATH=/repo:/verif /venv/bin/python -m pytest -q -p no:cacheprovider ' + testpath + '\n'
            'import json, os\nfrom vf import main\n\n'
            f'def test_{pid}_{h}():\n'
            f'    sigs = main.replay_signatures({pid!r}, os.path.join(os.path.dirname(__file__), {pid + "-" + h + ".json"!r}))\n'
            f'    assert {sig!r} not in sigs, "violation reproduced: " + {sig!r}\n')
    return os.path.relpath(path, OUT)


def validate_evidence(path):
    """schema check with jsonschema (tooling venv); returns error text or ''"""
    code = ('import json,sys,jsonschema\n'
            's=json.load(open("/root/.vp/EVIDENCE.schema.json"))\n'
            'd=json.load(open(sys.argv[1]))\n'
            'jsonschema.Draft202012Validator(s).validate(d)\n')
    if not os.path.exists('/root/.vp/EVIDENCE.schema.json'):
        return ''
    try:
        r = subprocess.run(['python3-vt', '-c', code, path], capture_output=True, text=True, timeout=60)
    except (OSError, subprocess.TimeoutExpired) as e:
        return f'validator not runnable: {e}'
    return '' if r.returncode == 0 else r.stderr[-1500:]


def write_evidence(ctx, wall_s, nviol):
    t = ctx.total
    cov = dict(
        states=t.states + len(t.fps), transitions=t.transitions, traces_validated_against_impl=t.traces,
        samples=t.samples[:Part.MAXSAMPLES] or ['(no sample recorded)'],
        evaluations=t.evaluations, distinct_nontrivial=t.nontrivial,
        rule=ctx.rule, exhaustive=bool(ctx.exhaustive and not t.caps),
        caps_hit=t.caps, distinct_outcomes=len(t.outcomes),
        outcome_histogram=dict(t.outcomes.most_common(12)),
        subchecks=ctx.subchecks, notes=t.notes,
    )
    cov.update({k: v for k, v in t.extra.items() if k not in cov})
    cov.update(ctx.coverage)
    ev = dict(property_id=ctx.pid, tier=ctx.tier, seed=ctx.seed, level='model_checking', coverage=cov,
              assumptions=ctx.assumptions, wall_s=round(wall_s, 2), violations=nviol)
    os.makedirs(os.path.join(OUT, 'evidence'), exist_ok=True)
    path = os.path.join(OUT, 'evidence', f'{ctx.pid}.json')
    with open(path, 'w', encoding='utf-8') as f:
        json.dump(ev, f, indent=1, default=repr)
        f.write('\n')
    return path
