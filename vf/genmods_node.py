"""G: generated module classes for the node-level checks (C04, C06).

A *shape* is a JSON-able dict; `make_class(shape)` builds the classes with type() (through the real
HasAccessibles.__init_subclass__ machinery), so that a violation case can carry the shape and replay() can rebuild it.

    shape['nopoll'] = True: the class sets enablePoll = False (a node of such modules can be started through the real start
                      path without any poll thread)
    shape['deferred'] = {'start': changes, 'runtime': changes}: the class finalises datatypes late, as drivers do that
                      learn limits / units from the hardware: `changes` are applied in startModule (after super) resp. by
                      the method vf_runtime_change() the harness calls;  changes = {attr: {'props': {min|max|unit|maxchars|
                      ...: value}} | {'replace': <type spec>}}
    shape = {'name': 'GA', 'base': 'Module'|'Readable'|'Writable'|'Drivable'|'Communicator',
             'features': ['HasGenA', ...],         # Feature mixins (direct subclasses of frappy.modulebase.Feature)
             'levels': [level, ...]}               # classes along the MRO, base-most first; the last one is instantiated
    level = {'params':   [param, ...],
             'limits':   ['target_min', 'foo_limits', ...],       # Limit() parameters
             'mixin_limits': ['foo_max', ...],   # Limit() parameters defined in a plain mixin class (not a HasAccessibles
                                                 # subclass) that this level's class lists before its base
             'checks':   {'foo': {'op': 'gt'|'lt'|'eq', 'thr': <exported value>}},  # check_foo raising RangeError
             'commands': [command, ...]}
    param = {'name', 'spec' (catalogue type spec as JSON), 'mode': 'ro'|'ro_write'|'rw_write'|'rw_nowrite'|'const',
             'export': True|False|'<custom wire name>', 'default': <V.enc of a driver-side value>, 'rfunc': bool,
             'rret': <V.enc of the value a read_<p> method returns when nothing is scripted (default: the cached value)>,
             'wret': 'none'|'same', 'unit': str, 'inherit': bool (override of an inherited parameter: no description)}
    command = {'name', 'arg': None|spec, 'result': None|spec, 'export': ..., 'ret': <V.enc of the scripted result>}
    level['xparams'] = convenience parameter kinds of frappy.extparams:
             {'kind': 'struct', 'name', 'prefix', 'members': [[member, spec, <V.enc default>], ...], 'readonly': bool,
              'access': 'none' | 'struct' (recording read_<name> [+ write_<name>]) | 'members' (recording read_/write_<prefix><member>)}
             {'kind': 'floatenum', 'name', 'labels': ['1', '10', ...], 'readonly': bool,
              'access': 'none' | 'idx' (recording read_<name>_idx and write_<name>_idx)}

Recording fake driver: every write_<p> / read_<p> / command function appends an entry to `module_driver(mod).log`
and returns a scripted value (`driver.script[(kind, name)]`, an Exception instance in the script is raised).
    ('write', pname, value)     ('read', pname)     ('do', cname, args, kwargs)

The *reference* view of a shape (what SECoP + the property statement say about it, independent of the implementation):
`reference(shape)` -> {'params': {attr: rec}, 'commands': {attr: rec}} with wire names, access mode, spec, limits, hooks.
"""
import base64
import json

from vf.catalog import types as T, values as V

# names predefined by SECoP (bare on the wire); everything else travels with a leading underscore
PREDEFINED = {'value', 'status', 'target', 'pollinterval', 'ramp', 'use_ramp', 'setpoint', 'time_to_target',
              'controlled_by', 'control_active', 'unit', 'loglevel', 'mode', 'ctrlpars',
              'stop', 'reset', 'go', 'abort', 'shutdown', 'communicate'}
LIMIT_POSTFIXES = ('_min', '_max', '_limits')

STATUS_R = ('tuple', (('enum', (('IDLE', 100), ('WARN', 200), ('ERROR', 400))), ('string', 0, None, True)))
STATUS_D = ('tuple', (('enum', (('IDLE', 100), ('WARN', 200), ('BUSY', 300), ('ERROR', 400))), ('string', 0, None, True)))
DOUBLE = ('double', None, None, None, None)

# accessibles inherited from the frappy base classes (as SECoP defines these interface classes)
INHERITED = {
    'Module': {'params': [], 'commands': []},
    'Communicator': {'params': [], 'commands': [
        {'name': 'communicate', 'arg': ('string', 0, None, False), 'result': ('string', 0, None, False), 'export': True,
         'foreign': True}]},
    'Readable': {'params': [
        {'name': 'value', 'spec': DOUBLE, 'mode': 'ro', 'export': True},
        {'name': 'status', 'spec': STATUS_R, 'mode': 'ro', 'export': True},
        {'name': 'pollinterval', 'spec': ('double', 0.1, 120.0, None, None), 'mode': 'rw_nowrite', 'export': True}],
        'commands': []},
}
INHERITED['Writable'] = {'params': INHERITED['Readable']['params'] + [
    {'name': 'target', 'spec': DOUBLE, 'mode': 'rw_nowrite', 'export': True}], 'commands': []}
INHERITED['Drivable'] = {'params': [dict(p, spec=STATUS_D) if p['name'] == 'status' else p
                                    for p in INHERITED['Writable']['params']],
                         'commands': [{'name': 'stop', 'arg': None, 'result': None, 'export': True, 'foreign': True}]}


class Driver:
    """the recording fake hardware of one module instance"""
    def __init__(self):
        self.log = []
        self.script = {}

    def answer(self, key, default):
        res = self.script.get(key, default)
        if isinstance(res, BaseException):
            raise res
        return res


def module_driver(mod):
    drv = mod.__dict__.get('_vf_driver')
    if drv is None:
        drv = mod.__dict__['_vf_driver'] = Driver()
    return drv


def wire_name(name, export=True):
    """reference wire-name rule"""
    if export is False:
        return None
    if export is not True:
        return export
    if name in PREDEFINED:
        return name
    for post in LIMIT_POSTFIXES:
        if name.endswith(post) and name[:-len(post)] in PREDEFINED:
            return name
    return '_' + name


def limit_spec(base_spec, name):
    if name.endswith('_limits'):
        return ('tuple', (base_spec, base_spec))
    return base_spec


def reference(shape):
    """reference model of a shape: attr name -> record (spec, mode, wire, limits, hooks)"""
    params, commands = {}, {}
    inh = INHERITED[shape['base']]
    for p in inh['params']:
        params[p['name']] = dict(p, spec=T.fromjson(T.tojson(p['spec'])), checks=[], wire=wire_name(p['name'], p['export']),
                                 limit_of=None, rfunc=False, foreign=True)
    for c in inh['commands']:
        commands[c['name']] = dict(c, wire=wire_name(c['name'], c['export']))
    for level in shape['levels']:
        for p in level.get('params', []):
            old = params.get(p['name'], {})
            rec = dict(old)
            rec.update(p)
            rec['spec'] = T.fromjson(p['spec'])
            rec['checks'] = list(old.get('checks', []))
            rec['wire'] = wire_name(p['name'], p.get('export', True))
            rec['limit_of'] = None
            rec['rfunc'] = bool(p.get('rfunc'))
            rec['foreign'] = False
            params[p['name']] = rec
        for lname in level.get('limits', []) + level.get('mixin_limits', []):
            base = lname.rpartition('_')[0]
            params[lname] = {'name': lname, 'spec': limit_spec(params[base]['spec'], lname), 'mode': 'rw_nowrite',
                             'export': True, 'wire': wire_name(lname), 'checks': [], 'limit_of': base, 'rfunc': False,
                             'foreign': False}
        for xp in level.get('xparams', []):
            mode = 'ro' if xp['readonly'] else 'rw_ext'     # rw_ext: writable, writes fan out to other parameters

            def xrec(name, spec, xkind):
                return {'name': name, 'spec': spec, 'mode': mode, 'export': True, 'wire': wire_name(name), 'checks': [],
                        'limit_of': None, 'rfunc': False, 'foreign': False, 'xkind': xkind, 'default': None}
            if xp['kind'] == 'struct':
                members = tuple((mn, T.fromjson(ms)) for mn, ms, _ in xp['members'])
                params[xp['name']] = xrec(xp['name'], ('struct', members, None), 'struct')
                for mn, ms in members:
                    params[xp['prefix'] + mn] = xrec(xp['prefix'] + mn, ms, 'struct-member')
            else:
                values = [float(lb) for lb in xp['labels']]
                params[xp['name']] = xrec(xp['name'], ('double', min(values), max(values), None, None), 'floatenum')
                params[xp['name'] + '_idx'] = xrec(xp['name'] + '_idx', ('enum', tuple((lb, i) for i, lb in enumerate(xp['labels']))),
                                                   'floatenum-index')
        for pname, chk in level.get('checks', {}).items():
            params[pname]['checks'] = params[pname]['checks'] + [chk]
        for c in level.get('commands', []):
            commands[c['name']] = dict(c, arg=T.fromjson(c['arg']) if c.get('arg') else None,
                                       result=T.fromjson(c['result']) if c.get('result') else None,
                                       wire=wire_name(c['name'], c.get('export', True)), foreign=False)
    for rec in params.values():
        rec['limits'] = sorted(n for n, r in params.items() if r.get('limit_of') == rec['name'])
    return {'params': params, 'commands': commands}


def export_of(spec, r):
    """wire form of an internal value, written from the SECoP rules (not frappy's export_value)"""
    k = spec[0]
    if k == 'double':
        return float(r)
    if k == 'int':
        return int(r)
    if k == 'scaled':
        return round(r / spec[1])
    if k == 'bool':
        return bool(r)
    if k == 'enum':
        return int(getattr(r, 'value', r))
    if k == 'string':
        return str(r)
    if k == 'blob':
        return base64.b64encode(r).decode('ascii')
    if k == 'array':
        return [export_of(spec[1], e) for e in r]
    if k == 'tuple':
        return [export_of(m, e) for m, e in zip(spec[1], r)]
    if k == 'struct':
        members = dict(spec[1])
        return {n: export_of(members[n], e) for n, e in r.items()}
    raise ValueError(spec)


# ----------------------------------------------------------------------------------------------
# class construction

_cache = {}
NOTGIVEN = object()


def _mk_write(pname, wret):
    def write(self, value):
        drv = module_driver(self)
        drv.log.append(('write', pname, value))
        return drv.answer(('write', pname), value if wret == 'same' else None)
    write.__name__ = 'write_' + pname
    return write


def _mk_read(pname, rret=NOTGIVEN):
    def read(self):
        drv = module_driver(self)
        drv.log.append(('read', pname))
        # the hardware answers the scripted value, else the class's fixed reading ('rret'), else the cached value
        return drv.answer(('read', pname), self.parameters[pname].value if rret is NOTGIVEN else rret)
    read.__name__ = 'read_' + pname
    return read


def _mk_check(pname, chk):
    op, thr = chk['op'], chk['thr']

    def check(self, value):
        from frappy.errors import RangeError
        ev = self.parameters[pname].datatype.export_value(value)
        module_driver(self).script.setdefault('checks_run', []).append((pname, op, thr))
        if (op == 'gt' and ev > thr) or (op == 'lt' and ev < thr) or (op == 'eq' and ev == thr):
            raise RangeError(f'{pname} refused by check hook ({op} {thr!r})')
    check.__name__ = 'check_' + pname
    return check


def _mk_command(cmd):
    name = cmd['name']
    ret = V.dec(cmd['ret']) if 'ret' in cmd else None
    arg = T.fromjson(cmd['arg']) if cmd.get('arg') else None
    kind = arg[0] if arg else None

    if kind == 'struct':
        names = [n for n, _ in arg[1]]
        optional = names if arg[2] is None else list(arg[2])
        # the command decorator derives the optional members from the defaults of the signature
        params = ', '.join(n if n not in optional else f'{n}=None' for n in names)
        kw = ', '.join(f'{n}={n}' for n in names)
        ns = {}
        # a real signature is needed (inspect.signature is consulted by frappy): build the def from the member names
        src = (f'def {name}(self, {params}):\n'
               f'    return _call(self, (), dict({kw}))\n')

        def _call(self, args, kwargs):
            drv = module_driver(self)
            drv.log.append(('do', name, args, {k: v for k, v in kwargs.items() if not (k in optional and v is None)}))
            return drv.answer(('do', name), ret)
        exec(src, {'_call': _call}, ns)   # pylint: disable=exec-used
        func = ns[name]
    else:
        def func(self, *args):
            drv = module_driver(self)
            drv.log.append(('do', name, args, {}))
            return drv.answer(('do', name), ret)
        func.__name__ = name
    func.__doc__ = f'generated command {name}'
    return func


def apply_deferred(mod, changes):
    """what a driver does when it learns the real limits / unit / members from its hardware"""
    for attr, ch in changes.items():
        pobj = mod.parameters[attr]
        if 'replace' in ch:
            dt = T.build(T.fromjson(ch['replace']))
            if hasattr(dt, 'set_name'):
                dt.set_name(attr)
            pobj.datatype = dt
        if 'props' in ch:
            pobj.datatype.set_properties(**ch['props'])


def make_class(shape):
    key = json.dumps(shape, sort_keys=True)
    if key in _cache:
        return _cache[key]
    import frappy.modules as M
    from frappy.modulebase import Feature
    from frappy.params import Parameter, Command, Limit
    feats = []
    for fname in shape.get('features', []):
        fkey = ('feature', fname)
        if fkey not in _cache:
            _cache[fkey] = type(fname, (Feature,), {'__module__': 'vf.genmods_node'})
        feats.append(_cache[fkey])
    bases = tuple(feats) + (getattr(M, shape['base']),)
    cls = None
    nlev = len(shape['levels'])
    for i, level in enumerate(shape['levels']):
        ns = {'__module__': 'vf.genmods_node'}
        for p in level.get('params', []):
            spec = T.fromjson(p['spec'])
            dt = T.build(spec)
            if p.get('unit'):
                dt.setProperty('unit', p['unit'])
            kw = {}
            mode = p['mode']
            if mode in ('rw_write', 'rw_nowrite'):
                kw['readonly'] = False
            elif mode in ('ro', 'ro_write'):
                kw['readonly'] = True
            if mode == 'const':
                kw['constant'] = V.dec(p['default'])
            elif 'default' in p:
                kw['default'] = V.dec(p['default'])
            if p.get('export', True) is not True:
                kw['export'] = p['export']
            if p.get('inherit'):
                ns[p['name']] = Parameter(datatype=dt, **kw)
            else:
                ns[p['name']] = Parameter(f"generated parameter {p['name']}", dt, **kw)
            if mode in ('rw_write', 'ro_write'):
                ns['write_' + p['name']] = _mk_write(p['name'], p.get('wret', 'none'))
            if p.get('rfunc'):
                ns['read_' + p['name']] = _mk_read(p['name'], V.dec(p['rret']) if 'rret' in p else NOTGIVEN)
        for xp in level.get('xparams', []):
            from frappy.extparams import StructParam, FloatEnumParam
            name = xp['name']
            if xp['kind'] == 'struct':
                members = {mn: Parameter(f'member {mn}', T.build(T.fromjson(ms)), default=V.dec(dflt))
                           for mn, ms, dflt in xp['members']}
                ns[name] = StructParam(f'generated struct parameter {name}', members, xp['prefix'], readonly=xp['readonly'])
                if xp['access'] == 'struct':
                    ns['read_' + name] = _mk_read(name)
                    if not xp['readonly']:
                        ns['write_' + name] = _mk_write(name, 'same')
                elif xp['access'] == 'members':
                    for mn in members:
                        ns['read_' + xp['prefix'] + mn] = _mk_read(xp['prefix'] + mn)
                        if not xp['readonly']:
                            ns['write_' + xp['prefix'] + mn] = _mk_write(xp['prefix'] + mn, 'same')
            else:
                ns[name] = FloatEnumParam(f'generated float/enum parameter {name}', list(xp['labels']),
                                          readonly=xp['readonly'], default=float(xp['labels'][0]))
                if xp['access'] == 'idx':
                    # an internal write method is legitimate also for a readonly parameter
                    ns[f'read_{name}_idx'] = _mk_read(name + '_idx')
                    ns[f'write_{name}_idx'] = _mk_write(name + '_idx', 'same')
        for lname in level.get('limits', []):
            ns[lname] = Limit()
        for pname, chk in level.get('checks', {}).items():
            ns['check_' + pname] = _mk_check(pname, chk)
        for c in level.get('commands', []):
            kw = {}
            if c.get('export', True) is not True:
                kw['export'] = c['export']
            arg = T.build(T.fromjson(c['arg'])) if c.get('arg') else None
            res = T.build(T.fromjson(c['result'])) if c.get('result') else None
            ns[c['name']] = Command(arg, result=res, **kw)(_mk_command(c))
        cname = shape['name'] if i == nlev - 1 else f"{shape['name']}Base{i}"
        if level.get('mixin_limits'):
            mixin = type(f"{shape['name']}Mixin{i}", (), {'__module__': 'vf.genmods_node',
                                                          **{ln: Limit() for ln in level['mixin_limits']}})
            bases = (mixin,) + bases
        if i == nlev - 1:
            if shape.get('nopoll'):
                ns['enablePoll'] = False
            if shape.get('deferred'):
                holder = {}
                deferred = shape['deferred']

                def startModule(self, start_events, holder=holder, deferred=deferred):
                    super(holder['cls'], self).startModule(start_events)
                    apply_deferred(self, deferred.get('start', {}))

                def vf_runtime_change(self, deferred=deferred):
                    apply_deferred(self, deferred.get('runtime', {}))
                    # like a driver that re-reads its hardware after the change: the cache holds values of the new types
                    for attr in deferred.get('runtime', {}):
                        setattr(self, attr, self.parameters[attr].default)
                ns['startModule'] = startModule
                ns['vf_runtime_change'] = vf_runtime_change
        cls = type(cname, bases, ns)
        if i == nlev - 1 and shape.get('deferred'):
            holder['cls'] = cls
        bases = (cls,)
    _cache[key] = cls
    return cls


# ----------------------------------------------------------------------------------------------
# the family

def P(name, spec, mode, **kw):
    rec = {'name': name, 'spec': T.tojson(spec), 'mode': mode}
    idx = kw.pop('dflt', 0)
    if 'default' not in kw:     # every parameter starts with a value (no 'not initialized' read errors)
        kw['default'] = V.enc(V.valid(spec, 'drv')[idx])
    rec.update(kw)
    return rec


def C(name, arg=None, result=None, **kw):
    rec = {'name': name, 'arg': T.tojson(arg) if arg else None, 'result': T.tojson(result) if result else None}
    if result and 'ret' not in kw:
        kw['ret'] = V.enc(V.valid(result, 'drv')[0])
    rec.update(kw)
    return rec


D010 = ('double', 0.0, 10.0, None, None)
I09 = ('int', 0, 9)
SC = ('scaled', 0.1, 0.0, 10.0)
EN = ('enum', (('a', 1), ('b', 2)))
S3 = ('string', 0, 3, False)
SU = ('string', 0, None, True)
BL = ('blob', 0, 4)
BO = ('bool',)
ST2 = ('struct', (('a', I09), ('b', S3)), ())             # both mandatory: a partial struct needs the merge
STO = ('struct', (('a', D010), ('b', EN)), ('b',))
STA = ('struct', (('a', I09), ('b', BO)), None)
ARR = ('array', I09, 1, 3)
TUP = ('tuple', (I09, S3))


def shapes(tier):
    """the covering family; quick = first three classes"""
    ga = {   # numbers with dynamic limits and check hooks along the MRO
        'name': 'GA', 'base': 'Writable', 'features': [],
        'levels': [
            {'params': [P('target', D010, 'rw_write', inherit=True, dflt=2),
                        P('foo', I09, 'rw_write', dflt=2, rfunc=True),
                        P('value', ('double', -100.0, 100.0, None, None), 'ro', inherit=True, rfunc=True),
                        P('bar', ('int', -3, 3), 'rw_write', dflt=3),
                        P('ramp', SC, 'rw_write', dflt=2, unit='$/min')],
             'limits': ['target_min', 'target_max', 'foo_limits', 'ramp_max'],
             'checks': {'bar': {'op': 'gt', 'thr': 2}}},
            {'params': [P('lvl', ('double', -5.0, 5.0, None, None), 'rw_nowrite', dflt=2, unit='$')],
             'limits': ['lvl_min'],
             'checks': {'bar': {'op': 'lt', 'thr': -1}, 'foo': {'op': 'eq', 'thr': 5}}},
        ]}
    gb = {   # every kind of datatype x access mode x export mode, commands
        'name': 'GB', 'base': 'Module', 'features': ['HasGenA'],
        'levels': [
            {'params': [P('s', S3, 'rw_write', rfunc=True), P('e', EN, 'rw_write', wret='same', rfunc=True), P('b', BO, 'rw_nowrite'),
                        P('bl', BL, 'rw_write', rfunc=True), P('st', ST2, 'rw_write'), P('sto', STO, 'rw_nowrite'),
                        P('arr', ARR, 'rw_write', wret='same', rfunc=True), P('tup', TUP, 'rw_write'),
                        P('ro', I09, 'ro'), P('row', I09, 'ro_write'), P('c', I09, 'const', dflt=3),
                        P('cs', S3, 'const', dflt=3), P('csc', SC, 'const', dflt=4),
                        P('hid', I09, 'rw_write', export=False), P('cus', I09, 'rw_write', export='custom'),
                        P('cux', S3, 'rw_nowrite', export='_other'),
                        P('sn', ('struct', (('a', I09), ('b', STO)), ('b',)), 'rw_write')],
             'commands': [C('cmd0'), C('cmdleaf', I09), C('cmdtup', TUP, result=I09), C('cmdst', STO, result=S3),
                          C('go'), C('cmdhid', I09, export=False), C('cmdcus', D010, export='customcmd')]},
        ]}
    gc = {   # drivable: scaled target with a limits pair, struct parameter with all members optional, two hook levels
        'name': 'GC', 'base': 'Drivable', 'features': ['HasGenA', 'HasGenB'],
        'levels': [
            {'params': [P('target', SC, 'rw_write', inherit=True, dflt=2, wret='same', unit='$'),
                        P('value', SC, 'ro', inherit=True, rfunc=True),
                        P('sta', STA, 'rw_write'),
                        P('k', ('double', 0.0, 10.0, 0.5, None), 'rw_write', dflt=2)],
             'limits': ['target_limits', 'k_min', 'k_max'],
             'commands': [C('cmdarr', ARR, result=ARR), C('cmdsc', SC, result=SC)]},
            {'checks': {'target': {'op': 'eq', 'thr': 70}, 'k': {'op': 'gt', 'thr': 8.25}}},
            {'checks': {'k': {'op': 'lt', 'thr': 0.75}}},
        ]}
    res = [ga, gb, gc, gx_shape(False), gi_shape(tier)]
    if tier == 'thorough':
        gd = {   # readable with parameters of further limit shapes
            'name': 'GD', 'base': 'Readable', 'features': [],
            'levels': [
                {'params': [P('i', ('int', None, None), 'rw_write'), P('d', DOUBLE, 'rw_write', dflt=2),
                            P('dres', ('double', -100.0, 100.0, None, 0.01), 'rw_write', dflt=2),
                            P('sc2', ('scaled', 2.0, -10.0, 10.0), 'rw_write', dflt=2),
                            P('e2', ('enum', (('x', -5), ('y', 100))), 'rw_write'),
                            P('su', SU, 'rw_write'), P('s22', ('string', 2, 2, False), 'rw_nowrite')],
                 'limits': ['i_min', 'i_max', 'd_limits', 'sc2_min'],
                 'commands': [C('cmdb', BL, result=BL), C('cmde', EN, result=EN), C('cmdbo', BO)]},
            ]}
        ge = {   # containers in depth
            'name': 'GE', 'base': 'Module', 'features': [],
            'levels': [
                {'params': [P('aa', ('array', ('array', I09, 0, 2), 0, 2), 'rw_write'),
                            P('ts', ('tuple', (I09, ST2)), 'rw_write'),
                            P('sn2', ('struct', (('a', STA), ('b', I09)), None), 'rw_write'),
                            P('a0', ('array', I09, 0, 0), 'rw_write'),
                            P('ae', ('array', EN, 2, 2), 'rw_nowrite'),
                            P('cst', STO, 'const'), P('carr', ARR, 'const', dflt=1)],
                 'commands': [C('cmdsta', STA), C('cmdst2', ST2, result=ST2), C('cmdtt', ('tuple', (I09, I09, I09)))]},
            ]}
        gf = {   # limits defined in a base class, parameter overridden (narrowed) in the subclass, hooks at three levels
            'name': 'GF', 'base': 'Writable', 'features': ['HasGenB'],
            'levels': [
                {'params': [P('target', ('double', -5.0, 5.0, None, None), 'rw_write', inherit=True, dflt=2)],
                 'limits': ['target_limits']},
                {'params': [P('n', I09, 'rw_write', dflt=2)], 'limits': ['n_min', 'n_max'],
                 'checks': {'target': {'op': 'gt', 'thr': 4.0}}},
                {'checks': {'target': {'op': 'lt', 'thr': -4.0}, 'n': {'op': 'eq', 'thr': 7}}},
            ]}
        res += [gd, ge, gf]
    return res


# ----------------------------------------------------------------------------------------------
# virtual clock for the node-level checks (the module machinery and the dispatcher read the time)

class VClock:
    """stands in for the `time` module inside frappy.modulebase and for `currenttime` in the dispatcher"""
    def __init__(self, start=1_700_000_000.0):
        self.now = start

    def time(self):
        return self.now

    def monotonic(self):
        return self.now

    def sleep(self, dt):
        self.now += max(dt, 0)

    def advance(self, dt):
        self.now += dt


CLOCK = VClock()


def install_clock():
    import frappy.modulebase
    import frappy.protocol.dispatcher
    frappy.modulebase.time = CLOCK
    frappy.protocol.dispatcher.currenttime = CLOCK.time
    return CLOCK


# configuration of the unexported neighbour: per-accessible export entries (True, custom wire name, False) for parameters
# and commands must not re-enable anything of a module that is itself not exported
HIDDEN_CFG = {'export': False, 'hp': {'export': True}, 'target': {'export': 'tx'}, 'hc': {'export': False},
              'hcmd': {'export': True}, 'go': {'export': 'gox'}}


# a visible instance of the same class in which the configuration hides / renames single accessibles: the names another
# instance of the class registers must not become reachable here
PARTIAL_CFG = {'hp': {'export': False}, 'target': {'export': 'tx2'}, 'hcmd': {'export': False}, 'go': {'export': 'gox2'}}


def partial_gone_names():
    """wire names that do NOT exist on the instance configured with PARTIAL_CFG (they do on a plain instance)"""
    ref = reference(HIDDEN_SHAPE)
    gone = {'param': set(), 'command': set()}
    for kind, table in (('param', ref['params']), ('command', ref['commands'])):
        for attr, rec in table.items():
            if attr in PARTIAL_CFG and rec['wire']:
                gone[kind].add(rec['wire'])
    return gone


def hidden_names():
    """every candidate wire name of the unexported neighbour: declared wire name, attribute name, _name, names given in
    HIDDEN_CFG"""
    ref = reference(HIDDEN_SHAPE)
    names = {'param': set(), 'command': set()}
    for kind, table in (('param', ref['params']), ('command', ref['commands'])):
        for attr, rec in table.items():
            names[kind].update({rec['wire'], attr, '_' + attr} - {None})
            exp = HIDDEN_CFG.get(attr, {}).get('export')
            if isinstance(exp, str):
                names[kind].add(exp)
    return names


# a small module configured with export=False next to the module under test
HIDDEN_SHAPE = {
    'name': 'GH', 'base': 'Drivable', 'features': [],
    'levels': [{'params': [P('target', D010, 'rw_write', inherit=True), P('hp', I09, 'rw_write'),
                           P('hc', I09, 'rw_write', export='hcustom')],
                'commands': [C('hcmd', I09), C('go')]}]}


def gi_shape(tier):
    """inheritance shapes of (parameter, dynamic limit, check hook): where along the class hierarchy each of the three is
    defined.  A class never defines a hook and a limit for the same parameter itself (frappy documents that the hook
    then replaces the automatic check); every other placement must enforce the limit and every hook.
        b: ancestor has a hook, subclass adds the limit   d: ancestor has a hook, a mixin of the subclass adds the limit
        e: hook in an intermediate class, limit added below it
      thorough also:
        a: limit added in a subclass (no hook)            c: limit defined by a plain mixin of a subclass (no hook)
        f: parameter and limit in one class               g: limit in the ancestor, hook in the subclass
        h: hook in the ancestor, limit in the subclass, a second hook below"""
    small = ('int', 0, 6)
    lv0 = {'params': [P(n, small, 'rw_write', dflt=2) for n in 'bde'], 'limits': [],
           'checks': {'b': {'op': 'eq', 'thr': 5}, 'd': {'op': 'eq', 'thr': 1}}}
    lv1 = {'limits': ['b_max'], 'mixin_limits': ['d_limits'], 'checks': {'e': {'op': 'eq', 'thr': 4}}}
    lv2 = {'limits': ['e_min'], 'checks': {}}
    if tier == 'thorough':
        lv0['params'] += [P(n, small, 'rw_write', dflt=2) for n in 'acfgh']
        lv0['limits'] += ['f_limits', 'g_min']
        lv0['checks']['h'] = {'op': 'eq', 'thr': 5}
        lv1['limits'] += ['a_max', 'h_max']
        lv1['mixin_limits'] += ['c_min']
        lv1['checks']['g'] = {'op': 'eq', 'thr': 4}
        lv2['checks']['h'] = {'op': 'eq', 'thr': 1}
    return {'name': 'GI', 'base': 'Module', 'features': [], 'levels': [lv0, lv1, lv2]}


def gx_shape(writable):
    """the convenience parameter kinds of frappy.extparams, each with and without access methods.
    writable=False: all declared readonly (GX, used by C04 and C06); True: all writable (GXW, C06 only - a write fans out
    to member / index parameters, which C04's one-call oracle does not model)"""
    ro = not writable
    mem = [['p', T.tojson(D010), 2.0], ['i', T.tojson(I09), 3]]
    return {
        'name': 'GXW' if writable else 'GX', 'base': 'Module', 'features': [],
        'levels': [{
            'params': [P('plain', I09, 'rw_write', dflt=2)],
            'xparams': [
                {'kind': 'struct', 'name': 'ctrl', 'prefix': 'pid_', 'members': mem, 'readonly': ro, 'access': 'none'},
                {'kind': 'struct', 'name': 'cs', 'prefix': 'cs_', 'members': mem, 'readonly': ro, 'access': 'struct'},
                {'kind': 'struct', 'name': 'cm', 'prefix': 'cm_', 'members': mem, 'readonly': ro, 'access': 'members'},
                {'kind': 'floatenum', 'name': 'gain', 'labels': ['1', '10', '100'], 'readonly': ro, 'access': 'none'},
                {'kind': 'floatenum', 'name': 'rng', 'labels': ['0.5', '2', '8'], 'readonly': ro, 'access': 'idx'},
            ]}]}


def shapes_c06(tier):
    """classes used by C06 only (kept out of shapes(): C04's alphabet and counts do not depend on them):
    constants on classes whose read_<p> returns something else (constant given in the class / to be given in the cfg),
    scaled integers on scales that are exact in binary"""
    h = ('scaled', 0.5, -10.0, 10.0)
    q = ('scaled', 0.25, 0.0, 5.0)
    o = ('scaled', 1.0, -3.0, 3.0)
    t = ('scaled', 2.0, -10.0, 10.0)
    gk = {
        'name': 'GK', 'base': 'Module', 'features': [],
        'levels': [
            {'params': [P('kc', I09, 'const', dflt=3, rfunc=True, rret=V.enc(7)),
                        P('kcs', S3, 'const', dflt=3, rfunc=True, rret=V.enc('zz')),
                        P('kch', h, 'const', dflt=4, rfunc=True, rret=V.enc(2.5)),
                        P('kr', I09, 'ro', rfunc=True, rret=V.enc(5)),
                        P('krq', q, 'ro', rfunc=True, rret=V.enc(1.25)),
                        P('kre', EN, 'ro', rfunc=True, rret=V.enc(2)),
                        P('h', h, 'rw_write', dflt=2), P('q', q, 'rw_write', wret='same', dflt=2),
                        P('o', o, 'rw_nowrite', dflt=2), P('t', t, 'rw_write', dflt=2),
                        P('ah', ('array', h, 1, 2), 'rw_write'), P('sq', ('struct', (('a', q), ('b', o)), ('b',)), 'rw_write')],
             'commands': []},
        ]}
    gs = {   # datatypes finalised in startModule and changed again at run time (limits, unit, lengths, enum members)
        'name': 'GS', 'base': 'Drivable', 'features': [], 'nopoll': True,
        'levels': [
            {'params': [P('value', DOUBLE, 'ro', inherit=True, unit='A', dflt=2),
                        P('target', DOUBLE, 'rw_write', inherit=True, unit='$', dflt=2),
                        P('n', ('int', None, None), 'rw_write', dflt=3),
                        P('sc', ('scaled', 0.5, -10.0, 10.0), 'rw_write', dflt=3),
                        P('s', ('string', 0, None, False), 'rw_nowrite'),
                        P('e', EN, 'rw_write', wret='same'),
                        P('arr', ('array', I09, 0, 3), 'rw_write', rfunc=True)],
             'commands': [C('cmd0'), C('cmdleaf', I09, result=I09)]},
        ],
        'deferred': {
            'start': {'target': {'props': {'min': -10.0, 'max': 10.0, 'unit': 'mV'}}, 'n': {'props': {'min': 0, 'max': 5}},
                      's': {'props': {'maxchars': 3}}, 'sc': {'props': {'max': 5.0}}},
            'runtime': {'target': {'props': {'min': -2.0, 'max': 2.0, 'unit': 'kV'}}, 'n': {'props': {'max': 3}},
                        's': {'props': {'maxchars': 2}}, 'e': {'replace': T.tojson(('enum', (('a', 1), ('b', 2), ('c', 3))))},
                        'arr': {'props': {'maxlen': 2}}},
        }}
    d100 = ('double', 0.0, 100.0, None, None)
    gm = {   # containers whose member types carry limits the configuration may narrow
        'name': 'GM', 'base': 'Module', 'features': [],
        'levels': [
            {'params': [P('ad', ('array', d100, 0, 3), 'rw_write', rfunc=True),
                        P('ai', ('array', I09, 0, 2), 'rw_nowrite'),
                        P('asc', ('array', ('scaled', 0.5, -10.0, 10.0), 0, 2), 'rw_write', rfunc=True),
                        P('ast', ('array', ('string', 0, 4, False), 0, 2), 'rw_write', rfunc=True),
                        P('aad', ('array', ('array', d100, 0, 2), 0, 2), 'rw_write', rfunc=True),
                        P('aai', ('array', ('array', I09, 1, 2), 0, 2), 'rw_nowrite')],
             'commands': []},
        ]}
    return [gk, gx_shape(True), gs, gm]
