"""bin/check --selftest : MANIFEST.setup_cmd.  Nothing to build (pure Python); verifies that the tool chain is usable
offline and that the engines' own toy problems behave (a seeded bug must be found, a correct toy must pass)."""
import importlib
import sys
import traceback


def run():
    ok = True
    tests = []
    for name in ('vf.engines.selftests', 'vf.engines.selftests_faultx', 'vf.engines.enumx'):
        try:
            mod = importlib.import_module(name)
            tests += [(f'{name}.{k}', v) for k, v in sorted(vars(mod).items()) if k.startswith('selftest_')]
        except ImportError as e:
            print(f'selftest: cannot import {name}: {e}')
            ok = False
    try:
        import frappy.datatypes  # noqa: F401  the tree under test must be importable
        print('selftest: frappy importable from', frappy.datatypes.__file__)
    except Exception:
        traceback.print_exc()
        ok = False
    for name, fn in tests:
        try:
            msg = fn()
            print(f'selftest: {name}: ok {msg or ""}')
        except Exception:
            print(f'selftest: {name}: FAILED')
            traceback.print_exc()
            ok = False
    print('selftest:', 'passed' if ok else 'FAILED')
    return 0 if ok else 1
