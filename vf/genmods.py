"""G for C09 / C10: module classes generated from *data*.

A class is described by a JSON-able record and created with type(name, bases, dict) through the real
HasAccessibles.__init_subclass__ machinery, so that programs (C09) and configurations (C10) stay data.

    datatype spec (JSON list)
        ['double', {min, max, unit, fmtstr, ...}]      ['int', lo, hi]          ['scaled', {scale, min, max, unit}]
        ['bool']     ['enum', {name: value}]           ['string', {minchars, maxchars, isUTF8}]     ['blob', lo, hi]
        ['array', member, minlen, maxlen]              ['tuple', [member, ...]]
        ['struct', {name: member}, optional-list | None]
        ['shared', name]   the one datatype object `name` of the program (vf.genmods.SHARED), not a new one
        ['status', '<frappy base class>', [standard status names]]     ['limits', member]  (LimitsType)
    class record   {'bases': [names of menu classes or of frappy classes], 'body': {attr: item}}
    body item      ['P', {Parameter kwds; 'datatype' is a datatype spec}]         a Parameter(...)
                   ['PP', {kwds}]                                                   a frappy.persistent.PersistentParam(...)
                   ['L', {kwds}]                                                    a Limit(...)
                   ['V', value]                                                     bare value overriding an accessible / a property
                   ['N']                                                            None (removes the accessible)
                   ['C', {'argument': spec|None, 'result': spec|None, properties}, impl]   Command(...)(function)
                   ['CO', {properties}]                                             Command(optional=True, ...) without function
                   ['H', kind, [parameter names], label]                            a frappy.rwhandler handler (kind 'cw' CommonWrite-,
                                                                                    'cr' CommonRead-, 'w' Write-, 'r' ReadHandler)
                   ['M', impl]                                                      plain function (write_/read_/check_/doPoll or a
                                                                                    method overriding a command without decorator)
                   ['R', {'description', 'datatype', properties}]                   a module Property(...)
    impl           'w:<p>' recording write method   'r:<p>' recording read method   'poll' recording doPoll
                   'echo' (self, arg) -> arg        'noarg' (self) -> None          'kw:a,b?' keyword function for a struct argument
                   'kwargs' (self, **kwds)          'wout' / 'wloop' write_target of a controlled output / of its controller
                   'chk:<p>:<max>' check_<p> raising RangeError above max            'doc:<text>' argument-less method with docstring

The recording fake driver appends to `self.drvlog` (a plain list on the instance): ['write', p, repr(value)],
['read', p], ['doPoll'] and, with the raw values, to `self.drvraw`: ('write', p, value), ('read', p, None), ('doPoll', None, None).
"""
import sys
import types

import frappy.core     # noqa  (must be imported before frappy.mixins)
import frappy.mixins
import frappy.io
import frappy.persistent
from frappy import datatypes as D
from frappy.errors import RangeError
from frappy.modulebase import Feature, HasAccessibles
from frappy.modules import Communicator, Drivable, Module, Readable, Writable
from frappy.params import Command, Limit, Parameter
from frappy.properties import Property

FRAPPY_BASES = {
    'object': object, 'Module': Module, 'Readable': Readable, 'Writable': Writable, 'Drivable': Drivable,
    'Communicator': Communicator, 'Feature': Feature, 'HasAccessibles': HasAccessibles,
    'HasIO': frappy.io.HasIO, 'PersistentMixin': frappy.persistent.PersistentMixin,
    'HasControlledBy': frappy.mixins.HasControlledBy, 'HasOutputModule': frappy.mixins.HasOutputModule,
}


# datatype OBJECTS shared by several declarations of one program (a module level constant of a driver, e.g.
# PERCENT = FloatRange(0, 100, unit='%')): set by the harness for the program being built, referred to as ['shared', name]
SHARED = {}


def dt(spec):
    """datatype spec -> fresh frappy datatype object (public constructors only); ['shared', name] -> the shared object"""
    if spec is None:
        return None
    k = spec[0]
    if k == 'shared':
        return SHARED[spec[1]]
    if k == 'double':
        return D.FloatRange(**(spec[1] if len(spec) > 1 else {}))
    if k == 'int':
        return D.IntRange(spec[1], spec[2])
    if k == 'scaled':
        return D.ScaledInteger(**spec[1])
    if k == 'bool':
        return D.BoolType()
    if k == 'enum':
        return D.EnumType('', members=dict(spec[1]))
    if k == 'string':
        return D.StringType(**(spec[1] if len(spec) > 1 else {}))
    if k == 'blob':
        return D.BLOBType(spec[1], spec[2])
    if k == 'array':
        return D.ArrayOf(dt(spec[1]), spec[2], spec[3])
    if k == 'tuple':
        return D.TupleOf(*[dt(m) for m in spec[1]])
    if k == 'struct':
        return D.StructOf(None if spec[2] is None else list(spec[2]), **{n: dt(m) for n, m in spec[1].items()})
    if k == 'limits':
        return D.LimitsType(dt(spec[1]))
    if k == 'status':
        return D.StatusType(FRAPPY_BASES[spec[1]], *spec[2])
    raise ValueError(f'unknown datatype spec {spec!r}')


def drvlog(mod):
    return mod.__dict__.setdefault('drvlog', [])


def make_impl(impl):
    """a fresh function object for an impl code"""
    kind, _, rest = impl.partition(':')
    if kind == 'w':
        def write(self, value, _p=rest):
            drvlog(self).append(['write', _p, repr(value)])
            self.__dict__.setdefault('drvraw', []).append(('write', _p, value))
            return value
        return write
    if kind == 'r':
        def read(self, _p=rest):
            drvlog(self).append(['read', _p])
            self.__dict__.setdefault('drvraw', []).append(('read', _p, None))
            return self.parameters[_p].value
        return read
    if kind == 'poll':
        def doPoll(self):
            drvlog(self).append(['doPoll'])
            self.__dict__.setdefault('drvraw', []).append(('doPoll', None, None))
        return doPoll
    if kind == 'echo':
        def echo(self, arg):
            """echo"""
            return arg
        return echo
    if kind == 'noarg':
        def noarg(self):
            """no argument"""
            return None
        return noarg
    if kind == 'kw':
        names = rest.split(',')
        args = ', '.join(f'{n[:-1]}=None' if n.endswith('?') else n for n in names)
        keys = ', '.join(f'{n.rstrip("?")!r}: {n.rstrip("?")}' for n in names)
        ns = {}
        exec(f'def kwfunc(self, {args}):\n    """keyworded"""\n    return {{{keys}}}\n', ns)  # pylint: disable=exec-used
        return ns['kwfunc']
    if kind == 'set':          # a command changing a (readonly) parameter
        def setter(self, arg, _p=rest):
            """set the parameter"""
            setattr(self, _p, arg)
        return setter
    if kind == 'kwargs':
        def kwfunc(self, **kwds):
            """any members"""
            return dict(kwds)
        return kwfunc
    if kind == 'wout':        # write_target of an output module with HasControlledBy: manual setting takes control back
        def write_target(self, value):
            drvlog(self).append(['write', 'target', repr(value)])
            self.self_controlled()
            return value
        return write_target
    if kind == 'wloop':       # write_target of a controller with HasOutputModule: takes control of its output module
        def write_target(self, value):
            drvlog(self).append(['write', 'target', repr(value)])
            self.activate_control()
            self.output_module.update_target(self.name, min(100.0, value))
            return value
        return write_target
    if kind == 'chk':
        pname, _, limit = rest.partition(':')

        def check(self, value, _p=pname, _m=float(limit)):
            if value > _m:
                raise RangeError(f'{_p} above {_m}')
        return check
    if kind == 'doc':
        def method(self):
            return None
        method.__doc__ = rest or None
        return method
    raise ValueError(f'unknown impl {impl!r}')


def make_handler(kind, keys, label):
    """a frappy.rwhandler handler over the parameters `keys` with a recording function:
    'cw' CommonWriteHandler: one call for the whole group -> ('write', label, {key: value})
    'cr' CommonReadHandler:  one call for the whole group -> ('read', label, None)
    'w'  WriteHandler:       one call per parameter        -> ('write', key, value)
    'r'  ReadHandler:        one call per parameter        -> ('read', key, None)"""
    from frappy import rwhandler
    keys = list(keys)
    if kind == 'cw':
        def common_write(self, values, _keys=tuple(keys), _label=label):
            got = {k: values[k] for k in _keys}
            drvlog(self).append(['write', _label, repr(got)])
            self.__dict__.setdefault('drvraw', []).append(('write', _label, got))
            for k, v in got.items():
                setattr(self, k, v)
        func, deco = common_write, rwhandler.CommonWriteHandler(keys)
    elif kind == 'cr':
        def common_read(self, _label=label):
            drvlog(self).append(['read', _label])
            self.__dict__.setdefault('drvraw', []).append(('read', _label, None))
        func, deco = common_read, rwhandler.CommonReadHandler(keys)
    elif kind == 'w':
        def handler_write(self, pname, value):
            drvlog(self).append(['write', pname, repr(value)])
            self.__dict__.setdefault('drvraw', []).append(('write', pname, value))
            return value
        func, deco = handler_write, rwhandler.WriteHandler(keys)
    elif kind == 'r':
        def handler_read(self, pname):
            drvlog(self).append(['read', pname])
            self.__dict__.setdefault('drvraw', []).append(('read', pname, None))
            return self.parameters[pname].value
        func, deco = handler_read, rwhandler.ReadHandler(keys)
    else:
        raise ValueError(kind)
    func.__qualname__ = f'generated.{label}.{kind}.{id(func)}'
    return deco(func)


def make_item(item):
    code = item[0]
    if code in ('P', 'L', 'PP'):
        kwds = dict(item[1])
        if 'datatype' in kwds:
            kwds['datatype'] = dt(kwds['datatype'])
        return {'P': Parameter, 'L': Limit, 'PP': frappy.persistent.PersistentParam}[code](**kwds)
    if code == 'V':
        return item[1]
    if code == 'N':
        return None
    if code == 'C':
        kwds = dict(item[1])
        args = {}
        if 'argument' in kwds:
            args['argument'] = dt(kwds.pop('argument'))
        if 'result' in kwds:
            kwds['result'] = dt(kwds.pop('result'))
        return Command(**args, **kwds)(make_impl(item[2]))
    if code == 'CO':      # an optional command a subclass may implement
        return Command(optional=True, **dict(item[1]))
    if code == 'H':
        return make_handler(item[1], item[2], item[3])
    if code == 'M':
        return make_impl(item[1])
    if code == 'R':
        kwds = dict(item[1])
        return Property(kwds.pop('description'), dt(kwds.pop('datatype')), **kwds)
    raise ValueError(f'unknown body item {item!r}')


def make_class(name, record, env):
    """create the class `name` from its record; env maps names of already created menu classes to class objects"""
    bases = tuple(env[b] if b in env else FRAPPY_BASES[b] for b in record['bases'])
    body = {}
    for attr, item in record['body'].items():
        fn = make_item(item)
        if item[0] == 'M' and callable(fn):
            fn.__name__ = attr
        body[attr] = fn
    body['__module__'] = __name__
    return type(name, bases, body)


# ---------------------------------------------------------------------------------------------------------------
# C10: a fixed family of module classes, importable by name ('frappy_verif_g.GA') so that config *files* can name them

G_RECORDS = {
    # plain module, parameters over several datatypes, with / without write and read methods
    'GA': {'bases': ['Module'], 'body': {
        'f': ['P', {'description': 'float', 'datatype': ['double', {'min': 0, 'max': 10, 'unit': 'K'}], 'readonly': False,
                    'default': 1.0}],
        'write_f': ['M', 'w:f'], 'read_f': ['M', 'r:f'],
        'i': ['P', {'description': 'int', 'datatype': ['int', 0, 9], 'readonly': False, 'default': 2}],
        'write_i': ['M', 'w:i'],
        'e': ['P', {'description': 'enum', 'datatype': ['enum', {'a': 1, 'b': 2, 'c': 3}], 'readonly': False, 'default': 1}],
        'write_e': ['M', 'w:e'],
        's': ['P', {'description': 'string without write method', 'datatype': ['string', {'maxchars': 8}], 'readonly': False,
                    'default': ''}],
        'sc': ['P', {'description': 'scaled', 'datatype': ['scaled', {'scale': 0.1, 'min': 0, 'max': 10}], 'readonly': False,
                     'default': 0}],
        'write_sc': ['M', 'w:sc'],
        'b': ['P', {'description': 'bool', 'datatype': ['bool'], 'readonly': False, 'default': False}],
        'write_b': ['M', 'w:b'],
        'arr': ['P', {'description': 'array', 'datatype': ['array', ['double', {'min': 0, 'max': 5}], 0, 3], 'readonly': False,
                      'default': []}],
        'write_arr': ['M', 'w:arr'],
        'st': ['P', {'description': 'struct', 'datatype': ['struct', {'x': ['double', {'min': 0, 'max': 5}], 'y': ['int', 0, 3]},
                                                           ['y']], 'readonly': False, 'default': {'x': 0, 'y': 0}}],
        'write_st': ['M', 'w:st'],
        'r': ['P', {'description': 'readonly polled', 'datatype': ['double', {'min': 0, 'max': 100}], 'default': 0}],
        'read_r': ['M', 'r:r'],
        'ro': ['P', {'description': 'readonly for clients, written to the hardware', 'datatype': ['double', {'min': 0, 'max': 100}],
                     'default': 0}],
        'write_ro': ['M', 'w:ro'],
        'doPoll': ['M', 'poll'],
        'cmd': ['C', {'argument': ['double', {'min': 0, 'max': 10}], 'result': ['double', {}], 'description': 'echo'}, 'echo'],
    }},
    # module with a parameter that must be configured and a mandatory property
    'GN': {'bases': ['Module'], 'body': {
        'n': ['P', {'description': 'needs cfg', 'datatype': ['double', {'min': 0, 'max': 10}], 'readonly': False,
                    'needscfg': True}],
        'write_n': ['M', 'w:n'],
        'mp': ['R', {'description': 'mandatory property', 'datatype': ['string', {}]}],
        'op': ['R', {'description': 'optional property', 'datatype': ['int', 0, 5], 'default': 1}],
        'f': ['P', {'description': 'float', 'datatype': ['double', {'min': 0, 'max': 10, 'unit': 'K'}], 'readonly': False,
                    'default': 1.0}],
        'write_f': ['M', 'w:f'],
        'doPoll': ['M', 'poll'],
    }},
    # drivable: main unit, predefined accessibles, poll of value and status
    'GD': {'bases': ['Drivable'], 'body': {
        'value': ['P', {'datatype': ['double', {'min': 0, 'max': 100, 'unit': 'K'}], 'default': 0}],
        'target': ['P', {'datatype': ['double', {'min': 0, 'max': 100, 'unit': '$'}], 'default': 0}],
        'ramp': ['P', {'description': 'ramp', 'datatype': ['double', {'min': 0, 'max': 20, 'unit': '$/min'}], 'readonly': False,
                       'default': 1}],
        'write_target': ['M', 'w:target'], 'write_ramp': ['M', 'w:ramp'],
        'read_value': ['M', 'r:value'], 'read_status': ['M', 'r:status'],
    }},
    # parameters whose datatype limits are lengths (string, array, blob): configured values between class and configured limits
    'GS': {'bases': ['Module'], 'body': {
        's': ['P', {'description': 'string', 'datatype': ['string', {'maxchars': 8}], 'readonly': False, 'default': ''}],
        'write_s': ['M', 'w:s'],
        'u': ['P', {'description': 'ascii string without write method', 'datatype': ['string', {'maxchars': 6}], 'readonly': False,
                    'default': ''}],
        'arr': ['P', {'description': 'array', 'datatype': ['array', ['double', {'min': 0, 'max': 100}], 0, 4], 'readonly': False,
                      'default': []}],
        'write_arr': ['M', 'w:arr'],
        'bl': ['P', {'description': 'blob', 'datatype': ['blob', 0, 4], 'readonly': False, 'default': b''}],
        'write_bl': ['M', 'w:bl'],
        'doPoll': ['M', 'poll'],
    }},
    # parameters sharing one write / read method (frappy.rwhandler): p, i, d are written by ONE call, a and b by one function
    # called per parameter
    'GW': {'bases': ['Module'], 'body': {
        'p': ['P', {'description': 'proportional', 'datatype': ['double', {'min': 0, 'max': 100}], 'readonly': False, 'default': 1.0}],
        'i': ['P', {'description': 'integral', 'datatype': ['double', {'min': 0, 'max': 100}], 'readonly': False, 'default': 1.0}],
        'd': ['P', {'description': 'differential', 'datatype': ['double', {'min': 0, 'max': 100}], 'readonly': False, 'default': 1.0}],
        'write_pid': ['H', 'cw', ['p', 'i', 'd'], 'pid'],
        'read_pid': ['H', 'cr', ['p', 'i', 'd'], 'pid'],
        'a': ['P', {'description': 'register a', 'datatype': ['int', 0, 50], 'readonly': False, 'default': 0}],
        'b': ['P', {'description': 'register b', 'datatype': ['int', 0, 50], 'readonly': False, 'default': 0}],
        'write_ab': ['H', 'w', ['a', 'b'], 'ab'],
        'read_ab': ['H', 'r', ['a', 'b'], 'ab'],
        'gain': ['P', {'description': 'gain', 'datatype': ['double', {'min': 0, 'max': 10}], 'readonly': False, 'default': 1.0}],
        'write_gain': ['M', 'w:gain'],
        'doPoll': ['M', 'poll'],
    }},
    # persistent parameters (frappy.persistent): with / without write method, writable / readonly (changed through a command)
    'GP': {'bases': ['PersistentMixin'], 'body': {
        'pw': ['PP', {'description': 'persistent, written to the hardware', 'datatype': ['double', {'min': 0, 'max': 100}],
                      'readonly': False, 'default': 1.0, 'persistent': 'auto'}],
        'write_pw': ['M', 'w:pw'],
        'pn': ['PP', {'description': 'persistent, no write method', 'datatype': ['double', {'min': 0, 'max': 100}], 'readonly': False,
                      'default': 2.0}],
        'pr': ['PP', {'description': 'persistent, readonly, changed by a command', 'datatype': ['double', {'min': 0, 'max': 100}],
                      'default': 3.0}],
        'setpr': ['C', {'argument': ['double', {'min': 0, 'max': 100}], 'result': None, 'description': 'set pr'}, 'set:pr'],
        'q': ['P', {'description': 'not persistent', 'datatype': ['double', {'min': 0, 'max': 100}], 'readonly': False, 'default': 4.0}],
        'write_q': ['M', 'w:q'],
        'doPoll': ['M', 'poll'],
    }},
    # not polled (enablePoll = False): nothing to poll, but configured values to be written to the hardware
    'GQ': {'bases': ['Module'], 'body': {
        'enablePoll': ['V', False],
        'g': ['P', {'description': 'gain', 'datatype': ['double', {'min': 0, 'max': 100}], 'readonly': False, 'default': 1.0}],
        'write_g': ['M', 'w:g'],
        'h': ['P', {'description': 'string without write method', 'datatype': ['string', {'maxchars': 8}], 'readonly': False,
                    'default': ''}],
    }},
    # not polled and attached to a communicator module: handled by the poll thread of the io module
    'GH': {'bases': ['HasIO'], 'body': {
        'enablePoll': ['V', False],
        'g': ['P', {'description': 'gain', 'datatype': ['double', {'min': 0, 'max': 100}], 'readonly': False, 'default': 1.0}],
        'write_g': ['M', 'w:g'],
        'h': ['P', {'description': 'string without write method', 'datatype': ['string', {'maxchars': 8}], 'readonly': False,
                    'default': ''}],
    }},
    # the io module GH modules attach to (auxiliary, always configured correctly)
    'GIO': {'bases': ['Module'], 'body': {
        'x': ['P', {'description': 'polled', 'datatype': ['double', {}], 'default': 0}],
        'read_x': ['M', 'r:x'],
        'doPoll': ['M', 'poll'],
    }},
    # base class declaring optional accessibles; GO does not implement them, GOI implements the parameter
    'GOB': {'bases': ['Module'], 'body': {
        'opt': ['P', {'description': 'optional parameter', 'datatype': ['double', {'min': 0, 'max': 100}], 'readonly': False,
                      'optional': True}],
        'ocmd': ['CO', {'description': 'optional command'}],
        'f': ['P', {'description': 'float', 'datatype': ['double', {'min': 0, 'max': 10, 'unit': 'K'}], 'readonly': False,
                    'default': 1.0}],
        'write_f': ['M', 'w:f'],
        'doPoll': ['M', 'poll'],
    }},
    'GO': {'bases': ['GOB'], 'body': {}},
    'GOI': {'bases': ['GOB'], 'body': {
        'opt': ['P', {'default': 1.0}],
        'write_opt': ['M', 'w:opt'],
    }},
}
_G = {}


def G(name):
    if name not in _G:
        rec = G_RECORDS[name]
        for b in rec['bases']:
            if b in G_RECORDS:
                G(b)
        _G[name] = make_class(name, rec, _G)
    return _G[name]


def __getattr__(name):
    if name in G_RECORDS:
        return G(name)
    raise AttributeError(name)


# frappy.lib.get_class only imports modules whose name starts with 'frappy': an alias module object, so that
# configurations (also config *files*) can name the classes as 'frappy_verif_g.GA'
G_MODULE = 'frappy_verif_g'
_alias = types.ModuleType(G_MODULE)
_alias.__getattr__ = __getattr__
sys.modules[G_MODULE] = _alias
